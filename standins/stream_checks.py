"""Bounded stand-ins for the streaming entry points (C05, C06, C07, C11) -- labelled `bounded`.

    python -m standins.stream_checks <check[,check]> --tier quick|thorough --seed N --out file.json
"""
from standins import guard
import argparse
import gzip
import io
import itertools
import json
import multiprocessing as mp
import os
import random
import sys
import tempfile
import time
import traceback

from spec import x690
from spec import universe as U
from standins.codec_checks import fail, jsonable, unjson, unjson_value, features, _imports


class Feed(io.RawIOBase):
    """scripted non-blocking, non-seekable source: data arrives chunk by chunk; read() returns None when
    nothing is available yet, short reads when less than requested is available, b'' once closed and drained."""

    def __init__(self):
        self.buf = b''
        self.closed_ = False
        self.reads = 0

    def feed(self, b):
        self.buf += b

    def finish(self):
        self.closed_ = True

    def readable(self):
        return True

    def seekable(self):
        return False

    def read(self, n=-1):
        self.reads += 1
        if not self.buf:
            return b'' if self.closed_ else None
        if n is None or n < 0:
            out, self.buf = self.buf, b''
        else:
            out, self.buf = self.buf[:n], self.buf[n:]
        return out


class Growing(io.BytesIO):
    """seekable growing stream (the kind tests/codec/ber/test_decoder.py uses): data is appended at the end
    while the read position is kept."""

    def feed(self, b):
        p = self.tell()
        self.seek(0, os.SEEK_END)
        self.write(b)
        self.seek(p)


def drive(dec_mod, stream, feeder, chunks, spec, max_steps=100000):
    """iterate a StreamingDecoder, feeding the next chunk after every reported underrun.
    -> (list of values, error or None)"""
    from pyasn1 import error
    out = []
    it = iter(dec_mod.StreamingDecoder(stream, asn1Spec=spec))
    pending = list(chunks)
    steps = 0
    try:
        while True:
            steps += 1
            if steps > max_steps:
                return out, 'step bound exceeded'
            try:
                r = next(it)
            except StopIteration:
                break
            if r is None or isinstance(r, error.SubstrateUnderrunError):
                if pending:
                    feeder(pending.pop(0))
                else:
                    return out, 'underrun reported although all bytes were delivered'
                continue
            out.append(r)
    except Exception as e:
        return out, '%s: %s' % (type(e).__name__, str(e)[:150])
    return out, None


def same(bridge, T, a, b):
    """abstract equality of two decoded values (native form; avoids float conversion of huge REALs)"""
    try:
        return x690.norm(T, bridge.from_value(T, a)) == x690.norm(T, bridge.from_value(T, b))
    except Exception:
        return False


def partitions(data, limit, rng):
    n = len(data)
    if n <= 1:
        yield [data]
        return
    total = 2 ** (n - 1)
    if total <= limit:
        masks = range(total)
    else:
        masks = [rng.randrange(total) for _ in range(limit)] + [0, total - 1]
    for m in masks:
        parts, start = [], 0
        for i in range(n - 1):
            if m >> i & 1:
                parts.append(data[start:i + 1])
                start = i + 1
        parts.append(data[start:])
        yield parts


def small_pairs(seed, maxlen):
    pairs = U.universe(seed=seed, tier='quick')
    rng = random.Random(seed)
    rng.shuffle(pairs)
    return pairs


def chk_schedules(T, v, M, opts):
    """C05: any arrival schedule yields exactly the objects the complete bytes yield (non-seekable source
    behind the caching wrapper, None polls and short reads included)."""
    be, bd, ce, cd, de, dd, error, bridge = M
    out, n = [], 0
    spec = bridge.to_type(T)
    val = bridge.to_value(T, v, spec)
    rng = random.Random(opts['seed'])
    for ename, enc, dec, mode in (('DER', de, dd, {}), ('BER-indef', be, bd, dict(defMode=False)), ('CER', ce, cd, {})):
        try:
            e = enc.encode(val, **mode)
            want, rest = dec.decode(e, asn1Spec=spec)
            if rest:
                continue
        except Exception:
            continue
        if len(e) > opts['maxlen']:
            continue
        stream_bytes = e + e            # two encodings back to back
        for parts in partitions(stream_bytes, opts['limit'], rng):
            n += 1
            f = Feed()
            f.feed(parts[0])

            def feeder(chunk, f=f):
                f.feed(chunk)
            got, err = drive(dec, f, feeder, parts[1:] + [None], spec) if False else (None, None)
            # drive with explicit end-of-stream after the last chunk
            pend = parts[1:]
            # every other schedule signals the end of the stream late: only after the decoder, having
            # delivered the last object, polled once more and found nothing ("no data yet", then "closed")
            late = n % 2 == 0
            got, err = _drive_feed(dec, f, pend, spec, late_close=late)
            if err or len(got) != 2 or any(not same(bridge, T, g, want) for g in got):
                out.append(fail('schedules', T, v, err or 'objects differ from one-shot decoding (%d objects)' % len(got),
                                enc=e, codec=ename, parts=[p.hex() for p in parts], source='non-seekable',
                                close='after-a-poll' if late else 'with-the-last-octet'))
                break
    return out, n


def _drive_feed(dec, f, pend, spec, late_close=False):
    from pyasn1 import error
    out = []
    it = iter(dec.StreamingDecoder(f, asn1Spec=spec))
    pend = list(pend)
    steps = 0
    try:
        while True:
            steps += 1
            if steps > 20000:
                return out, 'step bound exceeded (no progress)'
            try:
                r = next(it)
            except StopIteration:
                break
            if r is None or isinstance(r, error.SubstrateUnderrunError):
                if pend:
                    f.feed(pend.pop(0))
                elif not f.closed_:
                    f.finish()
                else:
                    return out, 'underrun reported although the stream is closed and drained'
                continue
            out.append(r)
            if not late_close and not pend and not f.buf and not f.closed_:
                f.finish()
    except Exception as e:
        return out, '%s: %s' % (type(e).__name__, str(e)[:150])
    return out, None


def chk_stream_truncation(T, v, M, opts):
    """C06 (streaming side): a stream that ends at byte k reports underrun while open and EndOfStreamError
    once closed; never a value, never 'malformed'."""
    be, bd, ce, cd, de, dd, error, bridge = M
    out, n = [], 0
    spec = bridge.to_type(T)
    val = bridge.to_value(T, v, spec)
    for ename, enc, dec, mode in (('DER', de, dd, {}), ('BER-indef', be, bd, dict(defMode=False))):
        try:
            e = enc.encode(val, **mode)
            dec.decode(e, asn1Spec=spec)
        except Exception:
            continue
        if len(e) > opts['maxlen']:
            continue
        for k in range(1, len(e)):
            n += 1
            f = Feed()
            f.feed(e[:k])
            it = iter(dec.StreamingDecoder(f, asn1Spec=spec))
            try:
                r = next(it)
                steps = 0
                while r is None or isinstance(r, error.SubstrateUnderrunError):
                    steps += 1
                    if steps == 2:
                        f.finish()
                    if steps > 50:
                        out.append(fail('stream-truncation', T, v, 'keeps reporting underrun after the stream was '
                                        'closed', enc=e, cut=k, codec=ename))
                        break
                    r = next(it)
                else:
                    out.append(fail('stream-truncation', T, v, 'a value was produced from a proper prefix', enc=e,
                                    cut=k, codec=ename))
            except error.EndOfStreamError:
                if not f.closed_:
                    out.append(fail('stream-truncation', T, v, 'EndOfStreamError while the stream is still open',
                                    enc=e, cut=k, codec=ename))
            except StopIteration:
                out.append(fail('stream-truncation', T, v, 'iteration stopped silently on a proper prefix', enc=e,
                                cut=k, codec=ename))
            except Exception as ex:
                out.append(fail('stream-truncation', T, v, '%s instead of underrun/end-of-stream: %s' % (
                    type(ex).__name__, str(ex)[:120]), enc=e, cut=k, codec=ename))
    return out, n


def chk_concat(T, v, M, opts):
    """C07 (streaming side): n encodings back to back -> n objects, position after each = its end."""
    be, bd, ce, cd, de, dd, error, bridge = M
    out, n = [], 0
    spec = bridge.to_type(T)
    val = bridge.to_value(T, v, spec)
    for ename, enc, dec, mode in (('DER', de, dd, {}), ('BER-indef', be, bd, dict(defMode=False)), ('CER', ce, cd, {})):
        try:
            e = enc.encode(val, **mode)
            want, rest = dec.decode(e, asn1Spec=spec)
            if rest:
                continue
        except Exception:
            continue
        for count in (1, 2, 3):
            n += 1
            s = io.BytesIO(e * count)
            try:
                ends = []
                objs = []
                for obj in dec.StreamingDecoder(s, asn1Spec=spec):
                    objs.append(obj)
                    ends.append(s.tell())
                    if len(objs) > count + 8:
                        break       # a complete stream of `count` items: anything more is reported below
            except Exception as ex:
                out.append(fail('concat', T, v, '%s: %s' % (type(ex).__name__, str(ex)[:120]), enc=e, count=count,
                                codec=ename))
                continue
            if len(objs) != count or any(not same(bridge, T, o, want) for o in objs) or \
                    ends != [len(e) * (i + 1) for i in range(count)]:
                out.append(fail('concat', T, v, '%d objects, positions %r (expected %d objects at multiples of %d)' % (
                    len(objs), ends, count, len(e)), enc=e, count=count, codec=ename))
    return out, n


class NonSeekable(io.RawIOBase):
    def __init__(self, b):
        self.b = io.BytesIO(b)

    def readable(self):
        return True

    def seekable(self):
        return False

    def read(self, n=-1):
        return self.b.read(n)


class ShortReads(NonSeekable):
    """a raw stream that hands out at most three octets per sized read although it has more (an unbuffered pipe or socket
    file may); read(-1) gives all the rest"""

    def read(self, n=-1):
        if n is None or n < 0:
            return self.b.read()
        return self.b.read(min(n, 3))


def outcome(dec, substrate, spec, T=None, bridge=None):
    try:
        r, rest = dec.decode(substrate, asn1Spec=spec)
        try:
            r = repr(x690.norm(T, bridge.from_value(T, r)))
        except Exception:
            r = 'unreadable:' + r.__class__.__name__
        return ('ok', r, bytes(rest))
    except Exception as e:
        from pyasn1 import error
        return ('err', type(e).__name__ if isinstance(e, error.PyAsn1Error) else 'NON-LIBRARY ' + type(e).__name__,
                None)


def chk_substrate_kinds(T, v, M, opts):
    """C11: bytes / BytesIO / OctetString / Any / file / gzip reader / non-seekable stream give identical
    value, remainder and error."""
    be, bd, ce, cd, de, dd, error, bridge = M
    from pyasn1.type import univ
    out, n = [], 0
    spec = bridge.to_type(T)
    val = bridge.to_value(T, v, spec)
    cases = []
    for ename, enc, dec, mode in (('DER', de, dd, {}), ('BER-indef', be, bd, dict(defMode=False))):
        try:
            e = enc.encode(val, **mode)
        except Exception:
            continue
        cases.append((ename, dec, e))
        cases.append((ename + '+tail', dec, e + b'\x05\x00'))
        if len(e) > 2:
            cases.append((ename + '-cut', dec, e[:len(e) // 2]))
            cases.append((ename + '-damaged', dec, e[:1] + bytes([e[1] ^ 0x01]) + e[2:]))
    tmpdir = opts['tmpdir']
    for name, dec, b in cases:
        ref = outcome(dec, b, spec, T, bridge)
        kinds = [('BytesIO', lambda: io.BytesIO(b)), ('OctetString', lambda: univ.OctetString(b)),
                 ('Any', lambda: univ.Any(b)), ('non-seekable', lambda: NonSeekable(b)), ('short-reads', lambda: ShortReads(b))]
        path = os.path.join(tmpdir, 'f%d.bin' % os.getpid())
        with open(path, 'wb') as fh:
            fh.write(b)
        gz = path + '.gz'
        with gzip.open(gz, 'wb') as fh:
            fh.write(b)
        files = []
        kinds.append(('file', lambda: files.append(open(path, 'rb')) or files[-1]))
        kinds.append(('gzip', lambda: files.append(gzip.open(gz, 'rb')) or files[-1]))
        for kname, mk in kinds:
            n += 1
            got = outcome(dec, mk(), spec, T, bridge)
            same = got[0] == ref[0] and (got[1] == ref[1]) and (got[2] == ref[2])
            if not same:
                out.append(fail('substrate-kinds', T, v, '%s differs from bytes: %r vs %r' % (
                    kname, (got[0], str(got[1])[:60], got[2]), (ref[0], str(ref[1])[:60], ref[2])),
                    enc=b, case=name, kind=kname))
        for fh in files:
            fh.close()
    return out, n


def big_cases(M, seed):
    """C11: encodings straddling multiples of the read-ahead buffer, deep and wide"""
    be, bd, ce, cd, de, dd, error, bridge = M
    K = io.DEFAULT_BUFFER_SIZE
    out = []
    for size in (K - 1, K, K + 1, 3 * K):
        out.append((U.T('OCTETSTRING'), bytes((i * 13) % 251 for i in range(size))))
    elem = U.T('OCTETSTRING')
    out.append((U.T('SEQUENCEOF', elem=elem), [bytes([65 + i]) * 3000 for i in range(5)]))
    out.append((U.T('SEQUENCEOF', elem=U.T('SEQUENCEOF', elem=elem)), [[b'x' * 5000, b'y' * 5000], [b'z' * 100]]))
    out.append((U.T('SEQUENCE', fields=[('a', U.T('INTEGER'), 'req'), ('b', U.T('OCTETSTRING'), 'req'),
                                        ('c', U.T('SEQUENCEOF', elem=U.T('INTEGER')), 'req')]),
                {'a': 7, 'b': b'q' * (2 * K + 5), 'c': list(range(3000))}))
    return out


def chk_wrapper_histories(seed, count):
    """C11: the seek-back wrapper against io.BytesIO over the same bytes, for random histories of
    read / peek / seek-back-to->=mark / set-mark-at-current-position / tell."""
    from pyasn1.codec import streaming
    rng = random.Random(seed)
    fails, n = [], 0
    K = io.DEFAULT_BUFFER_SIZE
    for trial in range(count):
        size = rng.choice([10, 100, K - 3, K + 7, 3 * K + 1])
        data = bytes(rng.randrange(256) for _ in range(size))
        w = streaming.CachingStreamWrapper(NonSeekable(data))
        ref = io.BytesIO(data)
        mark_ref = 0        # absolute mark in the reference
        hist = []
        ok = True
        for step in range(rng.randrange(2, 9)):
            op = rng.choice(['read', 'read', 'peek', 'seekback', 'mark', 'tell'])
            n += 1
            try:
                if op == 'read':
                    k = rng.choice([0, 1, 2, 5, 100, K, K + 1])
                    hist.append('read(%d)' % k)
                    a, b = w.read(k), ref.read(k)
                    if a != b:
                        ok = False
                elif op == 'peek':
                    k = rng.choice([1, 2, 50, K + 10])
                    hist.append('peek(%d)' % k)
                    p = ref.tell()
                    a, b = w.peek(k), ref.read(k)
                    ref.seek(p)
                    if a != b:
                        ok = False
                elif op == 'seekback':
                    back = rng.randrange(0, ref.tell() - mark_ref + 1)
                    hist.append('seek(-%d, SEEK_CUR)' % back)
                    w.seek(-back, os.SEEK_CUR)
                    ref.seek(-back, os.SEEK_CUR)
                elif op == 'mark':
                    hist.append('mark=tell()')
                    w.markedPosition = w.tell()
                    mark_ref = ref.tell()
                else:
                    hist.append('tell()')
                    if w.tell() != ref.tell():
                        ok = False
            except Exception as e:
                ok = False
                hist.append('%s: %s' % (type(e).__name__, e))
            if not ok:
                break
        if not ok:
            fails.append({'check': 'wrapper-histories', 'T': {'k': 'history'}, 'v': size, 'features': ['wrapper'],
                          'detail': 'wrapper diverges from BytesIO after: ' + '; '.join(hist),
                          'history': hist, 'size': size, 'renumbered': any(h.startswith('mark') for h in hist)})
    return fails, n


CHECKS = {'schedules': chk_schedules, 'stream-truncation': chk_stream_truncation, 'concat': chk_concat,
          'substrate-kinds': chk_substrate_kinds}


def _run_chunk(args):
    names, pairs, opts = args
    M = _imports()
    fails, evals, nontriv = [], 0, set()
    for T, v in pairs:
        for nm in names:
            if nm not in CHECKS:
                continue
            try:
                f, n = guard.run_case(lambda: CHECKS[nm](T, v, M, opts), seconds=600)   # one case = every schedule of one encoding
            except guard.CaseTimeout:
                f, n = [fail(nm, T, v, 'does not terminate within %d s on this case' % 3000)], 1
            except Exception as ex:
                f, n = [fail(nm, T, v, 'harness error %s: %s' % (type(ex).__name__, ex),
                             trace=traceback.format_exc()[-800:], harness_error=True)], 1
            fails.extend(f)
            evals += n
        nontriv.add(repr((T, v)))
    return fails, evals, len(nontriv)


def run(names, tier, seed, jobs=16):
    pairs = U.universe(seed=seed, tier='quick')
    rng = random.Random(seed)
    rng.shuffle(pairs)
    budget = {'quick': 220, 'thorough': len(pairs)}[tier]
    pairs = pairs[:budget]
    opts = {'seed': seed, 'maxlen': 7 if tier == 'quick' else 9, 'limit': 4096 if tier == 'quick' else 70000}
    tmpdir = tempfile.mkdtemp(prefix='pyvc-kinds-')
    opts['tmpdir'] = tmpdir
    try:
        if 'substrate-kinds' in names:
            M = _imports()
            pairs = pairs + big_cases(M, seed)
        chunks = [pairs[i::jobs * 2] for i in range(jobs * 2)]
        chunks = [c for c in chunks if c]
        ctx = mp.get_context('fork')
        with ctx.Pool(jobs) as pool:
            res = pool.map(_run_chunk, [(names, c, opts) for c in chunks], chunksize=1)
        fails = [f for r in res for f in r[0]]
        evals = sum(r[1] for r in res)
        nontriv = sum(r[2] for r in res)
        if 'wrapper-histories' in names:
            f, n = chk_wrapper_histories(seed, 400 if tier == 'quick' else 6000)
            fails += f
            evals += n
            nontriv += n
    finally:
        import shutil
        shutil.rmtree(tmpdir, ignore_errors=True)
    return {'checks': names, 'pairs': len(pairs), 'evaluations': evals, 'distinct_nontrivial': nontriv,
            'failures': fails}


def main():
    ap = argparse.ArgumentParser()
    ap.add_argument('checks')
    ap.add_argument('--tier', default='quick')
    ap.add_argument('--seed', type=int, default=0)
    ap.add_argument('--out')
    ap.add_argument('--jobs', type=int, default=16)
    ap.add_argument('--replay')
    a = ap.parse_args()
    if a.replay:
        f = json.loads(a.replay)
        if f['check'] == 'wrapper-histories':
            fs, n = chk_wrapper_histories(0, 400)
            same = [x for x in fs if x['history'] == f.get('history')] or fs
        else:
            T, v = unjson(f['T']), unjson_value(f['T'], f['v'])
            opts = {'seed': 0, 'maxlen': 12, 'limit': 70000, 'tmpdir': tempfile.mkdtemp(prefix='pyvc-kinds-')}
            fs, n = CHECKS[f['check']](T, v, _imports(), opts)
            same = fs
        for x in same[:3]:
            print('REPRODUCED %s: %s' % (x['check'], x['detail'][:400]))
        if not same:
            print('not reproduced on this tree')
        sys.exit(1 if same else 0)
    t0 = time.time()
    res = run(a.checks.split(','), a.tier, a.seed, jobs=a.jobs)
    res['wall_s'] = time.time() - t0
    if a.out:
        with open(a.out, 'w') as f:
            json.dump(res, f)
    else:
        print(json.dumps({k: v for k, v in res.items() if k != 'failures'}))
        seen = {}
        for f in res['failures']:
            key = (f['check'], f['detail'][:70], tuple(x for x in f['features'] if not x.startswith('kind:')))
            seen.setdefault(key, []).append(f)
        for key, fs in sorted(seen.items(), key=lambda kv: -len(kv[1])):
            print(len(fs), key)
            print('     e.g.', json.dumps({k: fs[0][k] for k in fs[0] if k not in ('features', 'check', 'detail', 'T')})[:400])


if __name__ == '__main__':
    main()
