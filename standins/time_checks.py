"""Bounded stand-in for C20 (time values <-> datetime, canonical time strings) -- labelled `bounded`.

    python -m standins.time_checks datetime-roundtrip,x680-instant,cer-canonical --tier quick|thorough --out f.json
"""
import argparse
import datetime
import itertools
import json
import sys
import time
from fractions import Fraction


def rec(check, detail, **kw):
    d = {'check': check, 'T': {'k': 'time'}, 'v': None, 'detail': detail, 'features': []}
    d.update(kw)
    if 'text' in d:
        d['fraction'] = d['text'].partition('.')[2].split('Z')[0].split('+')[0].split('-')[0]
    return d


def x680_instant(text, years_digits):
    """independent reading of a GeneralizedTime / UTCTime string per X.680 (46.2 / 47.3): returns
    (utc instant as Fraction of seconds since 0001-01-01 or None for local time, offset minutes or None)"""
    t = text
    off = None
    if t.endswith('Z'):
        off = 0
        t = t[:-1]
    else:
        for sgn in '+-':
            if sgn in t:
                t, _, z = t.partition(sgn)
                if len(z) not in (2, 4) or not z.isdigit():
                    raise ValueError('zone')
                off = (int(z[:2]) * 60 + (int(z[2:]) if len(z) == 4 else 0)) * (1 if sgn == '+' else -1)
                break
    frac = Fraction(0)
    for mark in '.,':
        if mark in t:
            t, _, f = t.partition(mark)
            if not f.isdigit():
                raise ValueError('fraction')
            frac = Fraction(int(f), 10 ** len(f))
            break
    if not t.isdigit():
        raise ValueError('digits')
    y = int(t[:years_digits])
    if years_digits == 2:
        y += 2000 if y < 50 else 1900
    rest = t[years_digits:]
    if len(rest) not in (6, 8, 10):
        raise ValueError('length')
    mo, d, h = int(rest[0:2]), int(rest[2:4]), int(rest[4:6])
    mi = int(rest[6:8]) if len(rest) >= 8 else 0
    s = int(rest[8:10]) if len(rest) >= 10 else 0
    base = datetime.datetime(y, mo, d, h, mi, s)
    secs = Fraction((base - datetime.datetime(1, 1, 1)) // datetime.timedelta(seconds=1))
    # the fraction applies to the last component present
    unit = {6: 3600, 8: 60, 10: 1}[len(rest)]
    secs += frac * unit
    if off is not None:
        secs -= off * 60
    return secs, off


def dt_instant(dt):
    off = dt.utcoffset()
    offm = 0 if off is None else int(off.total_seconds()) // 60
    naive = dt.replace(tzinfo=None)
    secs = Fraction((naive - datetime.datetime(1, 1, 1)) // datetime.timedelta(microseconds=1), 10 ** 6)
    return secs - offm * 60, (None if off is None else offm)


OFFSETS = [None, 0, 1, -1, 30, -30, 60, -60, 90, -90, 330, -330, 840, -840]
MICROS = [0, 1000, 5000, 50000, 120000, 999000]


def grid(tier):
    dates = [(2017, 7, 11, 0, 1, 2), (1999, 12, 31, 23, 59, 59), (2000, 2, 29, 12, 0, 0), (1970, 1, 1, 0, 0, 0),
             (999, 7, 11, 0, 1, 2)]
    if tier != 'quick':
        dates += [(2049, 12, 31, 23, 59, 58), (1969, 6, 1, 0, 0, 1), (2038, 1, 19, 3, 14, 7), (1601, 1, 1, 0, 0, 0), (2, 12, 31, 23, 59, 58),
                  (9999, 1, 1, 0, 0, 0)]
    for d in dates:
        for us in MICROS:
            for off in OFFSETS:
                tz = None if off is None else datetime.timezone(datetime.timedelta(minutes=off))
                yield datetime.datetime(*d, us, tzinfo=tz)


def chk_roundtrip(tier):
    from pyasn1.type import useful
    fails, n = [], 0
    for dt in grid(tier):
        for cls, prec in ((useful.GeneralizedTime, 1000), (useful.UTCTime, 10 ** 6)):
            # UTCTime has a two-digit year; X.680 fixes no century.  The years on which the two windows in use agree
            # (RFC 5280: 1950-2049, POSIX %y as used by the library: 1969-2068) are the representable range checked here
            if cls is useful.UTCTime and (dt.microsecond or not (1969 <= dt.year < 2050)):
                continue
            n += 1
            try:
                t = cls.fromDateTime(dt)
                back = t.asDateTime
            except Exception as e:
                fails.append(rec('datetime-roundtrip', '%s.fromDateTime(%r) / asDateTime raised %s: %s' % (
                    cls.__name__, dt.isoformat(), type(e).__name__, e), micro=dt.microsecond))
                continue
            want_i, want_off = dt_instant(dt)
            got_i, got_off = dt_instant(back)
            if want_off is None:
                want_off = 0            # a datetime without offset is taken as UTC
            if got_i != want_i or got_off != want_off:
                fails.append(rec('datetime-roundtrip', '%s: %s -> %s -> %s (instant %s, offset %r vs %r)' % (
                    cls.__name__, dt.isoformat(), str(t), back.isoformat(), 'kept' if got_i == want_i else 'CHANGED',
                    got_off, want_off), micro=dt.microsecond, offset=want_off, text=str(t)))
    return fails, n


def chk_x680(tier):
    """the text fromDateTime produces, read per X.680, denotes the datetime it was made from"""
    from pyasn1.type import useful
    fails, n = [], 0
    for dt in grid(tier):
        n += 1
        try:
            text = str(useful.GeneralizedTime.fromDateTime(dt))
            got, off = x680_instant(text, 4)
        except Exception as e:
            fails.append(rec('x680-instant', 'fromDateTime(%s) gives unreadable text: %s %s' % (dt.isoformat(),
                                                                                             type(e).__name__, e),
                             micro=dt.microsecond))
            continue
        want, woff = dt_instant(dt)
        if got != want:
            fails.append(rec('x680-instant', 'fromDateTime(%s) = %s, which X.680 reads as another instant (off by %s s)'
                             % (dt.isoformat(), text, float(got - want)), micro=dt.microsecond, text=text,
                             fraction_digits=len(text.partition('.')[2].rstrip('Z+-0123456789')[:0] or
                                                 text.partition('.')[2].split('Z')[0].split('+')[0].split('-')[0])))
    return fails, n


def time_strings(tier):
    # (the last three have no digit 0 anywhere: what is cleaned up must not depend on there being zeros to drop)
    base = ['2017080112', '201708011201', '20170801120112', '19991231235959', '199912312359', '2111111111']
    fracs = ['', '.', '.0', '.5', '.50', '.05', '.120', '.102', '.099', '.999', '.000', '.1234', '.100200', ',5',
             '.5000', '.0000', '.1230', '.12300', '.500', '.9990']
    zones = ['Z', '', '+0200', '-0130', '+02']
    for b in base:
        for f in fracs:
            for z in zones:
                yield 'G', b + f + z
    for b in ['1708011201', '170801120112']:
        for z in zones:
            yield 'U', b + z


def canonical(text):
    if not text.endswith('Z') or ',' in text:
        return False
    body = text[:-1]
    if '.' in body:
        f = body.partition('.')[2]
        if not f or f.endswith('0'):
            return False
    return True


def chk_cer(tier):
    from pyasn1.type import useful
    from pyasn1.codec.cer import encoder as ce
    from pyasn1.codec.der import encoder as de
    from pyasn1 import error
    fails, n = [], 0
    for kind, text in time_strings(tier):
        cls, yd = (useful.GeneralizedTime, 4) if kind == 'G' else (useful.UTCTime, 2)
        try:
            want, off = x680_instant(text, yd)
        except ValueError:
            # a decimal mark with no digit behind it is not X.680, but the library takes it (and the canonical encoders drop
            # the mark): the instant is that of the text without the mark
            if kind == 'G' and '.' in text and not text.partition('.')[2].rstrip('Z+-0123456789'[0:1])[:1].isdigit():
                try:
                    want, off = x680_instant(text.replace('.', '', 1), yd)
                except ValueError:
                    continue
            else:
                continue
        for ename, enc in (('CER', ce), ('DER', de)):
            n += 1
            try:
                out = enc.encode(cls(text))
            except error.PyAsn1Error:
                if off == 0 and ',' not in text and (kind == 'G' or True) and len(text.split('.')[0].rstrip('Z')) - yd >= 8:
                    # UTC, dot, minutes present: must be encodable
                    fails.append(rec('cer-canonical', '%s encoder refuses the UTC time %s' % (ename, text), text=text))
                continue
            except Exception as e:
                fails.append(rec('cer-canonical', '%s encoder raised %s on %s' % (ename, type(e).__name__, text), text=text))
                continue
            body = out[2:].decode('ascii')
            if off != 0:
                fails.append(rec('cer-canonical', '%s encoder accepts %s which is not in UTC' % (ename, text), text=text))
                continue
            if not canonical(body):
                fails.append(rec('cer-canonical', '%s(%s) = %s is not canonical' % (ename, text, body), text=text, out=body))
                continue
            got, _ = x680_instant(body, yd)
            if got != want:
                fails.append(rec('cer-canonical', '%s(%s) = %s denotes another instant per X.680' % (ename, text, body),
                                 text=text, out=body,
                                 interior_zero=('0' in text.partition('.')[2].rstrip('Z').rstrip('0'))))
    return fails, n


def main():
    ap = argparse.ArgumentParser()
    ap.add_argument('checks')
    ap.add_argument('--tier', default='quick')
    ap.add_argument('--seed', type=int, default=0)
    ap.add_argument('--out')
    ap.add_argument('--replay')
    a = ap.parse_args()
    names = a.checks.split(',') if not a.replay else [json.loads(a.replay)['check']]
    t0 = time.time()
    fails, evals = [], 0
    for nm, fn in (('datetime-roundtrip', chk_roundtrip), ('x680-instant', chk_x680), ('cer-canonical', chk_cer)):
        if nm in names:
            f, n = fn(a.tier)
            fails += f
            evals += n
    if a.replay:
        want = json.loads(a.replay)['detail'][:50]
        same = [x for x in fails if x['detail'][:50] == want] or fails
        for x in same[:3]:
            print('REPRODUCED %s: %s' % (x['check'], x['detail'][:300]))
        if not same:
            print('not reproduced on this tree')
        sys.exit(1 if same else 0)
    res = {'checks': names, 'evaluations': evals, 'distinct_nontrivial': evals, 'failures': fails, 'wall_s': time.time() - t0}
    if a.out:
        json.dump(res, open(a.out, 'w'))
    else:
        print({k: v for k, v in res.items() if k != 'failures'})
        import collections
        for k, c in collections.Counter((f['check'], f['detail'][:140]) for f in fails).most_common(30):
            print(c, k)


if __name__ == '__main__':
    main()
