"""Per-case time limit for the bounded stand-ins: a case that does not finish is a failure of the code under check
(non-termination on that input), never a hang of the check."""
import contextlib
import signal


class CaseTimeout(BaseException):
    """BaseException: harness code that catches Exception around library calls must not swallow it"""


@contextlib.contextmanager
def time_limit(seconds):
    def handler(signum, frame):
        raise CaseTimeout()
    try:
        old = signal.signal(signal.SIGALRM, handler)
    except ValueError:          # not in the main thread: no limit
        yield
        return
    signal.setitimer(signal.ITIMER_REAL, seconds)
    try:
        yield
    finally:
        signal.setitimer(signal.ITIMER_REAL, 0)
        signal.signal(signal.SIGALRM, old)


CASE_SECONDS = 60


def run_case(fn, seconds=None):
    """fn() under the case limit; a case that ran into it is tried once more with five times the limit before it counts
    as non-terminating (a loaded machine must not turn into an alarm)"""
    seconds = seconds or CASE_SECONDS
    try:
        with time_limit(seconds):
            return fn()
    except CaseTimeout:
        with time_limit(seconds * 5):
            return fn()
