"""Per-case time limit for the bounded stand-ins: a case that does not finish is a failure of the code under check
(non-termination on that input), never a hang of the check."""
import contextlib
import signal


class CaseTimeout(BaseException):
    """BaseException: harness code that catches Exception around library calls must not swallow it"""


@contextlib.contextmanager
def time_limit(seconds):
    def handler(signum, frame):
        raise CaseTimeout()
    try:
        old = signal.signal(signal.SIGALRM, handler)
    except ValueError:          # not in the main thread: no limit
        yield
        return
    signal.setitimer(signal.ITIMER_REAL, seconds)
    try:
        yield
    finally:
        signal.setitimer(signal.ITIMER_REAL, 0)
        signal.signal(signal.SIGALRM, old)


CASE_SECONDS = 60
