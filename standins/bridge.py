"""Bridge between the independent type/value descriptions of spec/x690.py and pyasn1 objects.
Uses only the *type* API of pyasn1 (never its codecs).  Runs under /venv/bin/python with
PYTHONPATH=<repo>:/verif."""
from pyasn1.type import univ, char, useful, namedtype, tag, base

SIMPLE = {
    'BOOLEAN': univ.Boolean, 'INTEGER': univ.Integer, 'ENUMERATED': univ.Enumerated, 'BITSTRING': univ.BitString,
    'OCTETSTRING': univ.OctetString, 'NULL': univ.Null, 'OID': univ.ObjectIdentifier, 'REAL': univ.Real,
    'UTF8String': char.UTF8String, 'NumericString': char.NumericString, 'PrintableString': char.PrintableString,
    'TeletexString': char.TeletexString, 'VideotexString': char.VideotexString, 'IA5String': char.IA5String,
    'GraphicString': char.GraphicString, 'VisibleString': char.VisibleString, 'GeneralString': char.GeneralString,
    'UniversalString': char.UniversalString, 'BMPString': char.BMPString,
    'ObjectDescriptor': useful.ObjectDescriptor, 'GeneralizedTime': useful.GeneralizedTime,
    'UTCTime': useful.UTCTime, 'ANY': univ.Any,
}
CHARKINDS = ('UTF8String', 'NumericString', 'PrintableString', 'TeletexString', 'VideotexString', 'IA5String',
             'GraphicString', 'VisibleString', 'GeneralString', 'UniversalString', 'BMPString', 'ObjectDescriptor',
             'GeneralizedTime', 'UTCTime')


def apply_tags(obj, T):
    for mode, cls, num in T.get('tags', ()):
        fmt = tag.tagFormatConstructed if mode == 'E' else tag.tagFormatSimple
        t = tag.Tag(cls, fmt, num)
        obj = obj.subtype(explicitTag=t) if mode == 'E' else obj.subtype(implicitTag=t)
    return obj


def to_type(T):
    k = T['k']
    if k in SIMPLE:
        obj = SIMPLE[k]()
    elif k in ('SEQUENCE', 'SET', 'CHOICE'):
        nts = []
        for n, ft, mode in T['fields']:
            ft_obj = to_type(ft)
            if mode == 'req' or k == 'CHOICE':
                nts.append(namedtype.NamedType(n, ft_obj))
            elif mode == 'opt':
                nts.append(namedtype.OptionalNamedType(n, ft_obj))
            else:
                nts.append(namedtype.DefaultedNamedType(n, to_value(ft, mode[1])))
        cls = {'SEQUENCE': univ.Sequence, 'SET': univ.Set, 'CHOICE': univ.Choice}[k]
        obj = cls(componentType=namedtype.NamedTypes(*nts))
    elif k in ('SEQUENCEOF', 'SETOF'):
        cls = univ.SequenceOf if k == 'SEQUENCEOF' else univ.SetOf
        obj = cls(componentType=to_type(T['elem']))
    else:
        raise ValueError(k)
    return apply_constraints(apply_tags(obj, T), T)


def apply_constraints(obj, T, skip=False):
    """subtype constraints of the universe types: 'range' (lo, hi) on integers, 'size' (lo, hi) on strings and
    collections, 'present' / 'absent' [names] on records and choices (WITH COMPONENTS { name PRESENT / ABSENT }), 'within' {name: (lo, hi)}
    (WITH COMPONENTS { name (lo..hi) })"""
    from pyasn1.type import constraint
    if T.get('unconstrained'):
        return obj
    if 'range' in T:
        obj = obj.subtype(subtypeSpec=constraint.ValueRangeConstraint(*T['range']))
    if 'size' in T:
        obj = obj.subtype(subtypeSpec=constraint.ValueSizeConstraint(*T['size']))
    if T.get('one'):
        # WITH COMPONENTS { a (lo..hi) PRESENT }: one constraint that names a component twice (the spelling the library
        # has for "value constraint and presence constraint on the same component"), in either order
        entries = [(n, constraint.ComponentPresentConstraint()) for n in T['present']] + \
                  [(n, constraint.ValueRangeConstraint(lo, hi)) for n, (lo, hi) in sorted(T['within'].items())]
        if T['one'] == 'rev':
            entries.reverse()
        return obj.subtype(subtypeSpec=constraint.WithComponentsConstraint(*entries))
    if 'present' in T:
        obj = obj.subtype(subtypeSpec=constraint.WithComponentsConstraint(
            *[(n, constraint.ComponentPresentConstraint()) for n in T['present']]))
    if 'absent' in T:
        # WITH COMPONENTS { name ABSENT }: on records, and on a CHOICE (the alternative may not be chosen)
        obj = obj.subtype(subtypeSpec=constraint.WithComponentsConstraint(
            *[(n, constraint.ComponentAbsentConstraint()) for n in T['absent']]))
    if 'within' in T:
        # WITH COMPONENTS { name (lo..hi) }: a value constraint on a member; it applies when the member is present
        obj = obj.subtype(subtypeSpec=constraint.WithComponentsConstraint(
            *[(n, constraint.ValueRangeConstraint(lo, hi)) for n, (lo, hi) in sorted(T['within'].items())]))
    if 'within_and' in T:
        # WITH COMPONENTS { name ((lo..hi)) }: the value constraint spelled as a one-operand set -- still a value constraint,
        # it applies when the member is present
        obj = obj.subtype(subtypeSpec=constraint.WithComponentsConstraint(
            *[(n, constraint.ConstraintsIntersection(constraint.ValueRangeConstraint(lo, hi)))
              for n, (lo, hi) in sorted(T['within_and'].items())]))
    return obj


def strip_constraints(T):
    """the unconstrained twin of a universe type (same tags and structure)"""
    t = {k: v for k, v in T.items() if k not in ('range', 'size', 'present', 'absent', 'within', 'within_and', 'violating', 'one')}
    if 'fields' in t:
        t['fields'] = [(n, strip_constraints(ft), m) for n, ft, m in t['fields']]
    if 'elem' in t:
        t['elem'] = strip_constraints(t['elem'])
    return t


def scalar_arg(T, v):
    k = T['k']
    if k == 'BITSTRING':
        return univ.BitString.fromBinaryString(v) if v else ()
    if k == 'REAL':
        return v if isinstance(v, str) else tuple(v)
    if k == 'NULL':
        return ''
    if k == 'BOOLEAN':
        return bool(v)
    return v


def to_value(T, v, spec=None):
    """pyasn1 value object for (T, v)."""
    k = T['k']
    spec = spec if spec is not None else to_type(T)
    if k in SIMPLE:
        if k == 'BITSTRING':
            # (a value object's clone(binValue=...) keeps the old value: pass the bits as the value itself)
            return spec.clone(univ.BitString.fromBinaryString(v)) if v else spec.clone(())
        return spec.clone(scalar_arg(T, v))
    obj = spec.clone()
    if k in ('SEQUENCE', 'SET'):
        for n, ft, mode in T['fields']:
            if n in v:
                obj.setComponentByName(n, to_value(ft, v[n], spec.componentType[n].asn1Object))
        if not T['fields']:
            obj.clear()         # a record type without members: the empty value, not the schema object
        return obj
    if k in ('SEQUENCEOF', 'SETOF'):
        for i, x in enumerate(v):
            obj.setComponentByPosition(i, to_value(T['elem'], x, spec.componentType))
        if not v:
            obj.clear()
        return obj
    if k == 'CHOICE':
        n, x = v
        obj.setComponentByName(n, to_value([ft for fn, ft, m in T['fields'] if fn == n][0], x,
                                           spec.componentType[n].asn1Object))
        return obj
    raise ValueError(k)


def from_value(T, obj):
    """native abstract value of a pyasn1 value object (DEFAULT members equal to default dropped by x690.norm)."""
    k = T['k']
    if k == 'BOOLEAN':
        return bool(obj)
    if k in ('INTEGER', 'ENUMERATED'):
        return int(obj)
    if k == 'BITSTRING':
        return obj.asBinary() if len(obj) else ''
    if k in ('OCTETSTRING', 'ANY'):
        return bytes(obj.asOctets())
    if k == 'NULL':
        return None
    if k == 'OID':
        return tuple(int(x) for x in obj.asTuple())
    if k == 'REAL':
        if obj.isPlusInf:
            return 'inf'
        if obj.isMinusInf:
            return '-inf'
        m, b, e = tuple(obj)
        return (int(m), int(b), int(e))
    if k in CHARKINDS:
        return str(obj)
    if k in ('SEQUENCE', 'SET'):
        out = {}
        for idx, (n, ft, mode) in enumerate(T['fields']):
            c = obj.getComponentByPosition(idx, default=None, instantiate=False)
            if c is None or c is base.noValue or not c.isValue:
                continue
            out[n] = from_value(ft, c)
        return out
    if k in ('SEQUENCEOF', 'SETOF'):
        return [from_value(T['elem'], obj.getComponentByPosition(i)) for i in range(len(obj))]
    if k == 'CHOICE':
        n = obj.getName()
        ft = [f for fn, f, m in T['fields'] if fn == n][0]
        return (n, from_value(ft, obj.getComponent()))
    raise ValueError(k)


def to_native_py(T, v):
    """plain python value tree accepted by pyasn1 encoders together with asn1Spec (C17)."""
    k = T['k']
    if k in ('SEQUENCE', 'SET'):
        return {n: to_native_py(ft, v[n]) for n, ft, mode in T['fields'] if n in v}
    if k in ('SEQUENCEOF', 'SETOF'):
        return [to_native_py(T['elem'], x) for x in v]
    if k == 'CHOICE':
        ft = [f for fn, f, m in T['fields'] if fn == v[0]][0]
        return {v[0]: to_native_py(ft, v[1])}
    if k == 'BITSTRING':
        return v
    if k == 'NULL':
        return ''
    if k == 'REAL':
        return v if isinstance(v, str) else tuple(v)
    return v
