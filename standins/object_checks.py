"""Bounded stand-ins over value objects (C04, C10, C12, C17) -- labelled `bounded`.

    python -m standins.object_checks <check[,check]> --tier quick|thorough --seed N --out file.json
"""
from standins import guard
import argparse
import io
import itertools
import json
import multiprocessing as mp
import random
import sys
import time
import traceback

from spec import x690
from spec import universe as U
from standins.codec_checks import fail, jsonable, unjson, unjson_value, features, _imports, value_size


def canon(M, val):
    be, bd, ce, cd, de, dd, error, bridge = M
    return de.encode(val), ce.encode(val)


def build_permuted(T, v, bridge, rng):
    """build the same abstract value along another history: other assignment / insertion order"""
    from pyasn1.type import univ
    spec = bridge.to_type(T)
    k = T['k']
    obj = spec.clone()
    if k in ('SEQUENCE', 'SET'):
        names = [n for n, ft, m in T['fields'] if n in v]
        rng.shuffle(names)
        for n in names:
            ft = [f for fn, f, m in T['fields'] if fn == n][0]
            obj.setComponentByName(n, build_permuted(ft, v[n], bridge, rng))
        if not T['fields']:
            obj.clear()         # record type without members: the empty value, not the schema object
        return obj
    if k in ('SEQUENCEOF',):
        if v and rng.random() < 0.6:
            # fill back to front by position
            for i in reversed(range(len(v))):
                obj.setComponentByPosition(i, build_permuted(T['elem'], v[i], bridge, rng))
        else:
            for x in v:
                obj.append(build_permuted(T['elem'], x, bridge, rng))
        if not v:
            obj.clear()
        return obj
    if k == 'SETOF':
        items = list(v)
        rng.shuffle(items)
        for x in items:
            obj.append(build_permuted(T['elem'], x, bridge, rng))
        if not v:
            obj.clear()
        return obj
    if k == 'CHOICE':
        # select another alternative first, then the right one
        others = [n for n, ft, m in T['fields'] if n != v[0]]
        ft = [f for fn, f, m in T['fields'] if fn == v[0]][0]
        obj.setComponentByName(v[0], build_permuted(ft, v[1], bridge, rng))
        return obj
    return bridge.to_value(T, v, spec)


def with_explicit_defaults(T, v):
    """same abstract value, DEFAULT members set explicitly to their default"""
    k = T['k']
    if k in ('SEQUENCE', 'SET'):
        out = {}
        for n, ft, m in T['fields']:
            if n in v:
                out[n] = with_explicit_defaults(ft, v[n])
            elif isinstance(m, tuple):
                out[n] = m[1]
        return out
    if k in ('SEQUENCEOF', 'SETOF'):
        return [with_explicit_defaults(T['elem'], x) for x in v]
    if k == 'CHOICE':
        ft = [f for fn, f, m in T['fields'] if fn == v[0]][0]
        return (v[0], with_explicit_defaults(ft, v[1]))
    return v


def with_refined_defaults(T, v, bridge):
    """same abstract value; every absent DEFAULT leaf member is assigned its default explicitly, as a value object of a
    compatible *refined subtype* of the member type (wide range / size constraint) -- a different Python object of a
    different derived type that denotes the same value"""
    from pyasn1.type import constraint
    obj = bridge.to_value(T, v)
    spec = bridge.to_type(T)
    did = False
    for n, ft, m in T['fields']:
        if n in v or not isinstance(m, tuple):
            continue
        member = spec.componentType[n].asn1Object
        if ft['k'] in ('INTEGER', 'ENUMERATED'):
            refined = member.subtype(subtypeSpec=constraint.ValueRangeConstraint(-2 ** 80, 2 ** 80))
        elif ft['k'] in ('OCTETSTRING', 'UTF8String', 'IA5String', 'PrintableString', 'BMPString'):
            refined = member.subtype(subtypeSpec=constraint.ValueSizeConstraint(0, 10 ** 6))
        else:
            continue
        obj.setComponentByName(n, refined.clone(bridge.scalar_arg(ft, m[1])))
        did = True
    return obj if did else None


def read_only_uses(val, M):
    """reads only: each may legitimately raise for some values (e.g. REAL comparison via float); what matters
    for C04 is that none of them changes the canonical bytes afterwards"""
    be, bd, ce, cd, de, dd, error, bridge = M
    uses = [lambda: de.encode(val), lambda: val.prettyPrint(), lambda: repr(val), lambda: val == val,
            lambda: [x for x in val], lambda: len(val), lambda: list(val.values()), lambda: list(val.items()),
            lambda: list(val.keys()), lambda: be.encode(val, defMode=False), lambda: val.isValue,
            lambda: val.prettyPrintType(), lambda: hash(val), lambda: str(val), lambda: val != val, lambda: bool(val),
            lambda: [k in val for k in list(val.keys())]]
    for u in uses:
        try:
            u()
        except Exception:
            pass
    try:
        deep_read(val, 0)
    except Exception:
        pass


def deep_read(obj, depth):
    """read every member of every existing member (a read instantiates the placeholder of an unset OPTIONAL/DEFAULT member;
    that placeholder itself is not read into)"""
    from pyasn1.type import univ
    if depth > 4:
        return
    if isinstance(obj, (univ.SequenceOf, univ.SetOf)):
        for x in obj:
            deep_read(x, depth + 1)
    elif isinstance(obj, (univ.Sequence, univ.Set)):
        for name in list(obj.keys()):
            try:
                c = obj[name]
            except Exception:
                continue
            try:
                present = bool(c.isValue)
                present and c.prettyPrint()
            except Exception:
                present = False
            # only *existing* members are read further down (C19: "reads of existing members never change"); subscripting
            # into the placeholder of an absent member is the library's documented way of building it in place
            if present:
                deep_read(c, depth + 1)
    elif isinstance(obj, univ.Choice):
        try:
            deep_read(obj.getComponent(), depth + 1)
        except Exception:
            pass


def mutate(obj, T):
    k = T['k']
    try:
        if k in ('SEQUENCEOF', 'SETOF'):
            obj.append(obj.componentType.clone(_some_value(T['elem'])))
        else:
            for idx, (n, ft, m) in enumerate(T['fields']):
                c = obj.getComponentByPosition(idx)
                if ft['k'] in ('SEQUENCEOF', 'SETOF'):
                    c.append(c.componentType.clone(_some_value(ft['elem'])))
                elif ft['k'] in ('INTEGER', 'ENUMERATED'):
                    obj.setComponentByPosition(idx, 99)
    except Exception:
        pass


def mutate_members(obj, T):
    k = T['k']
    try:
        if k in ('SEQUENCE', 'SET'):
            for idx, (n, ft, m) in enumerate(T['fields']):
                if ft['k'] in ('SEQUENCEOF', 'SETOF'):
                    c = obj.getComponentByPosition(idx)
                    c.append(c.componentType.clone(_some_value(ft['elem'])))
    except Exception:
        pass


def _some_value(T):
    return {'INTEGER': 41, 'OCTETSTRING': b'zz', 'BOOLEAN': True, 'ENUMERATED': 3}.get(T['k'], 1)


def set_real_bases(obj, base):
    """set the per-object BER encoding preference `binEncBase` on every REAL value inside obj -> number of REALs touched"""
    from pyasn1.type import univ
    if isinstance(obj, univ.Real):
        if obj.isValue:
            obj.binEncBase = base
            return 1
        return 0
    n = 0
    if isinstance(obj, univ.Choice):
        if obj.isValue:
            n += set_real_bases(obj.getComponent(), base)
    elif isinstance(obj, (univ.SequenceOf, univ.SetOf)):
        for k in range(len(obj)):
            c = obj.getComponentByPosition(k, instantiate=False)
            if c is not univ.noValue:
                n += set_real_bases(c, base)
    elif isinstance(obj, (univ.Sequence, univ.Set)):
        for k in range(len(obj.componentType) if obj.componentType else 0):
            c = obj.getComponentByPosition(k, default=None, instantiate=False)
            if c is not None and c is not univ.noValue:
                n += set_real_bases(c, base)
    return n


def chk_histories(T, v, M, rng):
    """C04: equal abstract content => identical DER and CER, whatever the construction history"""
    be, bd, ce, cd, de, dd, error, bridge = M
    out, n = [], 0
    from standins.codec_checks import untagged_any_in_ber_form
    if untagged_any_in_ber_form(T, v):
        return [], 0            # no DER / CER encoding: the contents of the untagged ANY are not canonical themselves
    try:
        base = bridge.to_value(T, v)
        d0, c0 = canon(M, base)
    except Exception:
        return [], 0
    variants = []
    try:
        variants.append(('permuted', build_permuted(T, v, bridge, rng)))
        variants.append(('permuted2', build_permuted(T, v, bridge, rng)))
        variants.append(('explicit-defaults', bridge.to_value(T, with_explicit_defaults(T, v))))
        variants.append(('clone', base.clone(cloneValueFlag=True) if T['k'] in x690.CONSTRUCTED or T['k'] == 'CHOICE'
                         else base.clone()))
        if T['k'] in x690.CONSTRUCTED or T['k'] == 'CHOICE':
            # deep copy of a value whose positions were filled in another order
            variants.append(('permuted-clone', build_permuted(T, v, bridge, rng).clone(cloneValueFlag=True)))
        if T['k'] in ('SEQUENCE', 'SET'):
            r = with_refined_defaults(T, v, bridge)
            if r is not None:
                variants.append(('explicit-defaults-of-a-refined-subtype', r))
        spec = bridge.to_type(T)
        for mode in (dict(defMode=False), dict(maxChunkSize=2), dict(defMode=False, maxChunkSize=1)):
            variants.append(('ber%r->decode' % (sorted(mode.items()),), bd.decode(be.encode(base, **mode), asn1Spec=spec)[0]))
        variants.append(('der->decode', dd.decode(d0, asn1Spec=spec)[0]))
        variants.append(('cer->decode', cd.decode(c0, asn1Spec=spec)[0]))
        # REAL leaves that carry a BER tuning preference (Real.binEncBase, per object): the canonical encoders fix base 2
        for b_ in (8, 16):
            tuned = bridge.to_value(T, v)
            if set_real_bases(tuned, b_):
                variants.append(('reals-prefer-base-%d' % b_, tuned))
        used = bridge.to_value(T, v)
        read_only_uses(used, M)
        variants.append(('after-read-only-uses', used))
    except Exception as e:
        out.append(fail('histories', T, v, 'building a variant raised %s: %s' % (type(e).__name__, str(e)[:150])))
    # a deep clone is independent of its source: changing the clone leaves the source's bytes alone
    if T['k'] in x690.CONSTRUCTED:
        n += 1
        try:
            src = bridge.to_value(T, v)
            cl = src.clone(cloneValueFlag=True)
            mutate(cl, T)
            if de.encode(src) != d0:
                out.append(fail('histories', T, v, 'modifying a deep clone changed the encoding of its source', history='clone-then-modify'))
            # members read from a value (DEFAULT members are instantiated on read) must not alias the type's defaults
            src2 = bridge.to_value(T, v)
            mutate_members(src2, T)
            fresh = bridge.to_value(T, v)
            if de.encode(fresh) != d0:
                out.append(fail('histories', T, v, 'modifying members of one value changed a freshly built equal value '
                                                    '(shared default?)', history='member-modify'))
        except Exception as e:
            pass
    for name, val in variants:
        n += 1
        try:
            d, c = canon(M, val)
        except Exception as e:
            out.append(fail('histories', T, v, '%s: encoding raised %s: %s' % (name, type(e).__name__, str(e)[:150]),
                            history=name))
            continue
        if d != d0 or c != c0:
            out.append(fail('histories', T, v, '%s: canonical bytes differ' % name, history=name, got=d, want=d0,
                            mode={'defMode': False} if 'defMode' in name and 'False' in name else None,
                            pair='CER' if name.startswith('cer') else None,
                            codec='CER' if name.startswith('cer') else ('BER-indef' if 'defMode' in name else None)))
    return out, n


def snapshot(obj):
    """deep structural snapshot of a pyasn1 object: encoding-independent"""
    from pyasn1.type import base, univ
    if obj is None:
        return None
    if isinstance(obj, (univ.SequenceOf, univ.SetOf)):
        return ('of', obj.__class__.__name__, obj.isValue, tuple(snapshot(obj.getComponentByPosition(i, instantiate=False, default=None))
                                                                 for i in range(len(obj))) if obj.isValue else None)
    if isinstance(obj, (univ.Sequence, univ.Set)):
        comps = []
        if obj.componentType:
            for i in range(len(obj.componentType)):
                c = obj.getComponentByPosition(i, instantiate=False, default=None)
                comps.append(snapshot(c) if (c is not None and c is not base.noValue) else None)
        return ('rec', obj.__class__.__name__, obj.isValue, tuple(comps))
    if isinstance(obj, univ.Choice):
        if obj.isValue:
            return ('choice', obj.getName(), snapshot(obj.getComponent()))
        return ('choice', None)
    if isinstance(obj, base.SimpleAsn1Type):
        return ('simple', obj.__class__.__name__, obj.isValue, repr(obj._value) if obj.isValue else None,
                repr(obj.tagSet), repr(obj.subtypeSpec))
    return ('other', repr(obj))


CODEC_OF = {'ber': 'BER', 'ber-indef': 'BER-indef', 'ber-chunked': 'BER-chunk', 'ber-chunked-spec': 'BER-chunk', 'cer': 'CER',
            'cer-spec': 'CER', 'der': 'DER', 'der-spec': 'DER'}


_HUGE_DONE = set()


def chk_purity(T, v, M, rng):
    """C12: codec calls change neither the value encoded nor the guiding type; results share no mutable state
    with the type or with each other; same outcome alone, repeated, or interleaved."""
    be, bd, ce, cd, de, dd, error, bridge = M
    out, n = [], 0
    try:
        spec = bridge.to_type(T)
        val = bridge.to_value(T, v, spec)
        e = de.encode(val)
    except Exception:
        return [], 0
    s_spec0, s_val0 = snapshot(spec), snapshot(val)
    d0 = e
    want_ref = x690.norm(T, v)
    # 1. encoding leaves the value and its type alone
    derived0 = snapshot(spec.clone())
    for name, f in (('ber', lambda: be.encode(val)), ('ber-indef', lambda: be.encode(val, defMode=False)),
                    ('ber-chunked', lambda: be.encode(val, maxChunkSize=1)), ('ber-chunked-spec', lambda: be.encode(
                        bridge.to_native_py(T, v), asn1Spec=spec, maxChunkSize=1)),
                    ('cer', lambda: ce.encode(val)), ('der', lambda: de.encode(val)),
                    ('cer-spec', lambda: ce.encode(bridge.to_native_py(T, v), asn1Spec=spec)),
                    ('der-spec', lambda: de.encode(bridge.to_native_py(T, v), asn1Spec=spec))):
        n += 1
        try:
            eb = f()
        except Exception:
            continue
        # the outcome of a call does not depend on the calls before it: whatever came first in this history, the bytes
        # still denote the value (read by the independent reader)
        try:
            got_, rest_ = x690.decode(T, eb)
            if got_ != want_ref or rest_:
                out.append(fail('purity', T, v, 'encoding (%s) after other calls denotes another value' % name, enc=eb,
                                codec=CODEC_OF.get(name)))
        except x690.Malformed as ex:
            out.append(fail('purity', T, v, 'encoding (%s) after other calls is not a valid encoding: %s' % (name, ex), enc=eb,
                            codec=CODEC_OF.get(name)))
        except Exception:
            pass
        if snapshot(spec) != s_spec0:
            out.append(fail('purity', T, v, 'encoding (%s) changed the type object' % name))
        if snapshot(spec.clone()) != derived0:
            out.append(fail('purity', T, v, 'after encoding (%s) an object derived from the type differs (tags/constraints '
                                            'of the type were changed behind its back)' % name))
        try:
            d1 = de.encode(val)
        except Exception as ex:
            out.append(fail('purity', T, v, 'after %s encoding the value can no longer be encoded: %s' % (name, ex)))
            continue
        if d1 != d0:
            out.append(fail('purity', T, v, 'encoding (%s) changed the DER encoding of the value' % name, got=d1, want=d0))
    # 1b. objects that are not (yet) values: handing one to an encoder, whatever the outcome, leaves it as it was
    if T['k'] in ('SEQUENCE', 'SET'):
        from pyasn1.type import univ as univ__
        from pyasn1.codec.native import encoder as nate__
        mand = [j for j, f_ in enumerate(T['fields']) if f_[2] == 'req']

        def partial(skip):
            r_ = spec.clone()
            for j in range(len(T['fields'])):
                c_ = val.getComponentByPosition(j, instantiate=False, default=None)
                if j != skip and c_ is not None and c_.isValue:
                    r_.setComponentByPosition(j, c_)
            return r_
        def snap_nd(o_, T_=None):
            # abstract content: a DEFAULT member holding its default value and an absent one are the same, at every depth
            T_ = T_ or T
            s_ = snapshot(o_)
            if T_['k'] not in ('SEQUENCE', 'SET') or s_[0] != 'rec':
                return s_
            comps_ = list(s_[3])
            for j_, f_ in enumerate(T_['fields']):
                if comps_[j_] is None:
                    continue
                c_ = o_.getComponentByPosition(j_, instantiate=False, default=None)
                if c_ is None:
                    comps_[j_] = None
                elif isinstance(f_[2], (list, tuple)) and c_ == o_.componentType[j_].asn1Object:
                    comps_[j_] = None
                elif f_[1]['k'] in ('SEQUENCE', 'SET'):
                    comps_[j_] = snap_nd(c_, f_[1])
            return s_[:3] + (tuple(comps_),)

        def born(T_):
            # a record type whose freshly made object counts as a value: every mandatory member is such a record itself
            return T_['k'] in ('SEQUENCE', 'SET') and all(born(ff[1]) for ff in T_['fields'] if ff[2] == 'req')
        for skip in [None] + mand[:3]:
            for name, f in (('ber', be.encode), ('cer', ce.encode), ('der', de.encode), ('native', nate__.encode)):
                n += 1
                try:
                    obj = spec.clone() if skip is None else partial(skip)
                except Exception:
                    break
                if obj.isValue:
                    break                                          # nothing mandatory is missing
                before = snap_nd(obj)
                try:
                    f(obj)
                    how = 'accepted'
                except error.PyAsn1Error:
                    how = 'refused'
                except OverflowError as ex:
                    if name != 'native':
                        out.append(fail('purity', T, v, 'encoding (%s) an incomplete record raised OverflowError: %s' % (
                            name, str(ex)[:80])))
                        continue
                    how = 'refused'                                # a REAL member beyond the float range has no Python float
                except Exception as ex:
                    out.append(fail('purity', T, v, 'encoding (%s) an incomplete record raised %s: %s' % (
                        name, type(ex).__name__, str(ex)[:80])))
                    continue
                after = snap_nd(obj)
                if after != before:
                    out.append(fail('purity', T, v, 'encoding (%s, %s) an incomplete record changed it: %s' % (
                        name, how, 'it became a value' if after[2] and not before[2] else 'members differ'),
                        incomplete_became_value=bool(after[2] and not before[2]),
                        born_value_member=all(
                            before[3][j] is None and T['fields'][j][2] == 'req' and born(T['fields'][j][1])
                            for j in range(len(T['fields'])) if before[3][j] != after[3][j])))
    # 2. decoding leaves the guiding type alone; results are independent objects
    n += 1
    try:
        r1, _ = bd.decode(e, asn1Spec=spec)
        r2, _ = bd.decode(e, asn1Spec=spec)
    except Exception as ex:
        return out, n
    if snapshot(spec) != s_spec0:
        out.append(fail('purity', T, v, 'decoding changed the guiding type object'))
    # ... also when a caller-supplied collector (substrateFun) fills in and hands back the object it is offered
    if T['k'] in ('SEQUENCE', 'SET', 'SEQUENCEOF', 'SETOF'):
        n += 1

        def collector(asn1Object, substrate, length, options):
            substrate.read(length)
            if hasattr(asn1Object, 'clear'):
                asn1Object.clear()
            yield asn1Object
        try:
            for enc_ in (e, be.encode(val, defMode=False)):
                c1, _ = bd.decode(enc_, asn1Spec=spec, substrateFun=collector)
                if c1 is spec:
                    out.append(fail('purity', T, v, 'a collector (substrateFun) is handed the guiding type object itself'))
                    break
        except Exception:
            pass
        if snapshot(spec) != s_spec0:
            out.append(fail('purity', T, v, 'decoding with a collector (substrateFun) changed the guiding type object'))
    # ... the native codec as well (python tree -> value object under the same guiding type)
    if no_any(T):
        try:
            from pyasn1.codec.native import encoder as ne_, decoder as nd_
            nd_.decode(ne_.encode(val), asn1Spec=spec)
            nd_.decode(bridge.to_native_py(T, v), asn1Spec=spec)
        except Exception:
            pass
        if snapshot(spec) != s_spec0:
            out.append(fail('purity', T, v, 'native decoding changed the guiding type object'))
            return out, n
    if T['k'] in x690.CONSTRUCTED or T['k'] == 'CHOICE':
        n += 1
        if r1 is r2 or r1 is spec:
            out.append(fail('purity', T, v, 'decoded results alias each other or the guiding type'))
        else:
            # mutate r1; r2 and spec must not notice
            try:
                if T['k'] in ('SEQUENCEOF', 'SETOF'):
                    r1.clear()
                elif T['k'] in ('SEQUENCE', 'SET'):
                    r1.clear()
                else:
                    r1.clear()
            except Exception:
                pass
            try:
                d2 = de.encode(r2)
            except Exception as ex:
                d2 = None
            if d2 != d0 or snapshot(spec) != s_spec0:
                out.append(fail('purity', T, v, 'mutating one decoded result changed another result or the type'))
    # 3. interleaved streaming decoders over the same schema give the same objects as alone
    n += 1
    try:
        streams = [io.BytesIO(e * 2) for _ in range(3)]
        its = [iter(bd.StreamingDecoder(s, asn1Spec=spec)) for s in streams]
        got = [[] for _ in its]
        alive = [True] * len(its)
        while any(alive):
            for i, it in enumerate(its):
                if not alive[i]:
                    continue
                try:
                    got[i].append(de.encode(next(it)))
                except StopIteration:
                    alive[i] = False
        if any(g != [d0, d0] for g in got):
            out.append(fail('purity', T, v, 'interleaved streaming decoders disagree with decoding alone'))
    except Exception as ex:
        out.append(fail('purity', T, v, 'interleaved streaming decoders raised %s: %s' % (type(ex).__name__, str(ex)[:100])))
    # 3b. debug logging switched on (off) while a streaming decoder is suspended: the object still comes out
    if len(e) > 2:
        for first_on in (False, True):
            n += 1
            from pyasn1 import debug as debug_
            try:
                from standins.stream_checks import Feed
                st = Feed()
                st.feed(e[:len(e) // 2])
                debug_.setLogger(debug_.Debug('all', printer=lambda *a_: None) if first_on else None)
                it_ = iter(bd.StreamingDecoder(st, asn1Spec=spec))
                first_ = next(it_)
                if not isinstance(first_, error.SubstrateUnderrunError):
                    raise RuntimeError('half an encoding gave %r' % (first_,))
                debug_.setLogger(None if first_on else debug_.Debug('all', printer=lambda *a_: None))
                st.feed(e[len(e) // 2:])
                st.finish()
                got_ = next(it_)
                while isinstance(got_, error.SubstrateUnderrunError):
                    got_ = next(it_)
                if de.encode(got_) != d0:
                    out.append(fail('purity', T, v, 'a decoder suspended while logging was switched %s gives another value' % (
                        'off' if first_on else 'on')))
            except Exception as ex:
                out.append(fail('purity', T, v, 'a decoder suspended while logging was switched %s raised %s: %s' % (
                    'off' if first_on else 'on', type(ex).__name__, str(ex)[:80])))
            finally:
                debug_.setLogger(None)
                del debug_.scope._list[:]
    # 4. debug logging on/off: the same calls, the same outcomes (values, remainders, errors)
    n += 1
    from pyasn1 import debug
    import tempfile
    seg = None
    try:
        seg = be.encode(val, defMode=False, maxChunkSize=1)       # segmented strings, indefinite lengths
    except Exception:
        pass

    from pyasn1.codec.native import decoder as natd_
    huge = []
    tkey = repr(sorted(T.items(), key=str))
    if T['k'] in ('INTEGER', 'ENUMERATED', 'BITSTRING', 'OID', 'REAL') and tkey not in _HUGE_DONE:
        _HUGE_DONE.add(tkey)
        big_ = (1 << 20000) + 1
        for mk in {'INTEGER': [lambda: spec.clone(big_), lambda: spec.clone(-big_)],
                   'ENUMERATED': [lambda: spec.clone(big_)],
                   'BITSTRING': [lambda: spec.clone(binValue='1' * 20000)],
                   'OID': [lambda: spec.clone((1, 3, big_))],
                   'REAL': [lambda: spec.clone((big_, 2, -20000))]}[T['k']]:
            try:
                huge.append(mk())
            except error.PyAsn1Error:
                pass                                               # the type's constraints refuse such a value

    def calls():
        res = []

        def one(f):
            try:
                r_ = f()
                res.append(('ok', r_))
            except error.PyAsn1Error as ex_:
                res.append(('library-error', type(ex_).__name__))
            except Exception as ex_:
                res.append(('error', type(ex_).__name__, str(ex_)[:80]))

        def dec_der(b_):
            r_, rest_ = bd.decode(b_, asn1Spec=spec)
            return de.encode(r_), bytes(rest_)

        def dec_file(b_):
            with tempfile.TemporaryFile() as fh:                   # a buffered file hands out what it has, not what is asked
                fh.write(b_)
                fh.seek(0)
                r_, rest_ = bd.decode(fh, asn1Spec=spec)
                return de.encode(r_)
        one(lambda: dec_der(e))
        one(lambda: be.encode(val, defMode=False))
        if seg is not None:
            one(lambda: dec_der(seg))
            one(lambda: dec_file(seg + e))
        # objects a log line may be unable to print: the type itself, records and collections nobody filled
        from pyasn1.type import univ as univ_
        from pyasn1.codec.native import encoder as nate_
        for mk in (lambda: spec, lambda: spec.clone(), univ_.Sequence, univ_.Set, univ_.SequenceOf, univ_.SetOf):
            one(lambda mk=mk: be.encode(mk()))
            one(lambda mk=mk: de.encode(mk()))
            one(lambda mk=mk: be.encode(mk(), defMode=False))
            one(lambda mk=mk: repr(nate_.encode(mk())))
        # values a log line may be unable to print: integers of more digits than the interpreter converts to decimal
        for hv in huge:
            one(lambda hv=hv: be.encode(hv))
            one(lambda hv=hv: dec_der(be.encode(hv)))
            one(lambda hv=hv: nate_.encode(hv) is None)
            one(lambda hv=hv: be.encode(nate_.encode(hv), asn1Spec=spec))
            one(lambda hv=hv: be.encode(natd_.decode(nate_.encode(hv), asn1Spec=spec)))
        return res
    try:
        off = calls()
        debug.setLogger(debug.Debug('all', printer=lambda *a_: None))
        try:
            on = calls()
        finally:
            debug.setLogger(None)
        if on != off:
            k_ = [i_ for i_ in range(len(off)) if on[i_] != off[i_]][0]
            out.append(fail('purity', T, v, 'call #%d gives %r with debug logging switched on, %r without' % (
                k_, on[k_][:2] if on[k_][0] != 'ok' else 'a result', off[k_][:2] if off[k_][0] != 'ok' else 'another result')))
    except Exception as ex:
        debug.setLogger(None)
        out.append(fail('purity', T, v, 'logging on/off comparison: harness error %s: %s' % (type(ex).__name__, str(ex)[:150]),
                        harness_error=True))
    return out, n


def well_typed(T, obj, bridge):
    """independent evaluator: obj is a complete value of T (mandatory members present, member types right)"""
    from pyasn1.type import univ, base
    k = T['k']
    spec = bridge.to_type(T)
    if obj is None or obj is base.noValue:
        return 'valueless object'
    if obj.__class__ is not spec.__class__:
        return 'is a %s, declared %s' % (obj.__class__.__name__, spec.__class__.__name__)
    if not obj.isValue:
        return 'valueless object'
    if k in ('SEQUENCE', 'SET'):
        for idx, (n, ft, m) in enumerate(T['fields']):
            c = obj.getComponentByPosition(idx, instantiate=False, default=None)
            present = c is not None and c is not base.noValue and c.isValue
            if not present:
                if m == 'req':
                    return 'mandatory member %s is missing' % n
                continue
            r = well_typed(ft, c, bridge)
            if r:
                return '%s: %s' % (n, r)
        if 'size' in T:
            count = 0
            for idx in range(len(T['fields'])):
                c = obj.getComponentByPosition(idx, instantiate=False, default=None)
                count += 1 if (c is not None and c is not base.noValue and c.isValue) else 0
            if not T['size'][0] <= count <= T['size'][1]:
                return '%d members present, outside SIZE (%d..%d)' % (count, T['size'][0], T['size'][1])
        for n in T.get('present', ()):
            idx = [f[0] for f in T['fields']].index(n)
            c = obj.getComponentByPosition(idx, instantiate=False, default=None)
            if c is None or c is base.noValue or not c.isValue:
                return 'member %s must be present (WITH COMPONENTS)' % n
        for n in T.get('absent', ()):
            idx = [f[0] for f in T['fields']].index(n)
            c = obj.getComponentByPosition(idx, instantiate=False, default=None)
            if not (c is None or c is base.noValue or not c.isValue):
                return 'member %s must be absent (WITH COMPONENTS)' % n
        for n, (lo, hi) in list(T.get('within', {}).items()) + list(T.get('within_and', {}).items()):
            idx = [f[0] for f in T['fields']].index(n)
            c = obj.getComponentByPosition(idx, instantiate=False, default=None)
            if not (c is None or c is base.noValue or not c.isValue) and not lo <= int(c) <= hi:
                return 'member %s is %d, WITH COMPONENTS says (%d..%d)' % (n, int(c), lo, hi)
        return None
    if k in ('SEQUENCEOF', 'SETOF'):
        if 'size' in T and not (T['size'][0] <= len(obj) <= T['size'][1]):
            return '%d elements, outside SIZE (%d..%d)' % (len(obj), T['size'][0], T['size'][1])
        for i in range(len(obj)):
            r = well_typed(T['elem'], obj[i], bridge)
            if r:
                return '[%d]: %s' % (i, r)
        return None
    if k == 'CHOICE':
        n = obj.getName()
        fts = [f for fn, f, m in T['fields'] if fn == n]
        if not fts:
            return 'unknown alternative %s' % n
        if n in T.get('absent', ()):
            return 'alternative %s is chosen, WITH COMPONENTS says ABSENT' % n
        return well_typed(fts[0], obj.getComponent(), bridge)
    if obj.__class__ is not spec.__class__:
        return 'is a %s, declared %s' % (obj.__class__.__name__, spec.__class__.__name__)
    if obj.tagSet != spec.tagSet:
        return 'tags %r, declared %r' % (obj.tagSet, spec.tagSet)
    if 'range' in T and not (T['range'][0] <= int(obj) <= T['range'][1]):
        return 'value %d outside (%d..%d)' % (int(obj), T['range'][0], T['range'][1])
    if 'size' in T and not (T['size'][0] <= len(obj) <= T['size'][1]):
        return 'size %d outside SIZE (%d..%d)' % (len(obj), T['size'][0], T['size'][1])
    return None


def mutations(e, rng, count):
    out = [e]
    for _ in range(count):
        b = bytearray(e)
        if not b:
            continue
        op = rng.randrange(5)
        i = rng.randrange(len(b))
        if op == 0:
            b[i] ^= 1 << rng.randrange(8)
        elif op == 1:
            del b[i]
        elif op == 2:
            b.insert(i, rng.choice([0, 1, 2, 4, 5, 0x30, 0x80, 0xff]))
        elif op == 3:
            b[i] = rng.choice([0, 1, 2, 4, 5, 0x30, 0x31, 0x80, 0x81, 0xa0, 0xff])
        else:
            j = rng.randrange(len(b))
            b[i], b[j] = b[j], b[i]
        out.append(bytes(b))
    return out


def member_damage(e):
    """structured damage of a constructed encoding: one member dropped / repeated in place of another / repeated at the
    end, lengths kept consistent (a record that is complete by count but not by content)"""
    out = []
    try:
        cls, pc, num, lo, hi, nxt = x690.read_tlv(e, 0)
        if not pc or nxt != len(e):
            return out
        kids = x690.children(e, lo, hi)
    except Exception:
        return out
    if not 1 <= len(kids) <= 6:
        return out
    tlvs = [e[k[0]:k[6]] for k in kids]
    head = bytes(x690.ident(cls, pc, num))

    def rebuild(parts):
        body = b''.join(parts)
        return head + bytes(x690.length_def(len(body))) + body
    for i in range(len(tlvs)):
        out.append(rebuild(tlvs[:i] + tlvs[i + 1:]))                      # member i missing
        out.append(rebuild(tlvs + [tlvs[i]]))                            # member i twice
        for j in range(len(tlvs)):
            if i != j:
                out.append(rebuild([tlvs[i] if k == j else t for k, t in enumerate(tlvs)]))   # member i in place of member j
    return out


def chk_accepts_wellformed(T, v, M, rng, nmut=12):
    """C10: whatever a guided decoder returns is a complete, re-encodable value of the type"""
    be, bd, ce, cd, de, dd, error, bridge = M
    out, n = [], 0
    try:
        spec = bridge.to_type(T)
    except Exception:
        return [], 0
    # the seed encoding comes from the reference encoder, not from the library: a value of the type that the library's own
    # encoder refuses must not drop out of the check (its decoder accepts the reference encoding, and then "the
    # library's own encoder accepts the value" is what fails)
    try:
        e = x690.der(T, v)
    except Exception:
        try:
            e = de.encode(bridge.to_value(T, v, spec))
        except Exception:
            return [], 0
    inputs = mutations(e, rng, nmut)
    if T['k'] in ('SEQUENCE', 'SET'):
        inputs += member_damage(e)
    # the indefinite-length forms go through decoders of their own (the end-of-octets loops of the constructed types)
    try:
        inputs += mutations(be.encode(bridge.to_value(T, v, spec), defMode=False), rng, max(2, nmut // 3))
    except Exception:
        pass
    # encodings of values of the unconstrained twin type that the constrained type does not contain
    if T.get('violating'):
        twin = bridge.strip_constraints(T)
        for bad in T['violating']:
            try:
                inputs.append(de.encode(bridge.to_value(twin, bad)))
                inputs.append(be.encode(bridge.to_value(twin, bad), defMode=False))
            except Exception:
                pass
    for b in inputs:
        for dname, dec in (('BER', bd), ('DER', dd)):
            n += 1
            try:
                r, rest = dec.decode(b, asn1Spec=spec)
            except Exception:
                continue
            why = well_typed(T, r, bridge)
            if why:
                out.append(fail('accepts-wellformed', T, v, '%s decoder returned an ill-formed value: %s' % (dname, why),
                                enc=b))
                continue
            try:
                e2 = be.encode(r)
                r2, rest2 = bd.decode(e2, asn1Spec=spec)
                same = x690.norm(T, bridge.from_value(T, r2)) == x690.norm(T, bridge.from_value(T, r))
            except Exception as ex:
                out.append(fail('accepts-wellformed', T, v, '%s decoder returned a value the encoder/decoder cannot '
                                'round-trip: %s: %s' % (dname, type(ex).__name__, str(ex)[:120]), enc=b))
                continue
            if not same or rest2:
                out.append(fail('accepts-wellformed', T, v, 'decode(encode(result)) differs from result', enc=b))
    return out, n


def no_any(T):
    if T['k'] == 'ANY':
        return False
    return all(no_any(f[1]) for f in T.get('fields', ())) and ('elem' not in T or no_any(T['elem']))


def chk_native(T, v, M, rng):
    """C17: native round trip; python value + schema encodes like the value object (BER, CER, DER)"""
    be, bd, ce, cd, de, dd, error, bridge = M
    from pyasn1.codec.native import encoder as ne, decoder as nd
    out, n = [], 0
    if not no_any(T):
        return [], 0
    try:
        spec = bridge.to_type(T)
        val = bridge.to_value(T, v, spec)
    except Exception:
        return [], 0
    want = x690.norm(T, v)
    # 1. value -> builtins -> value
    n += 1
    try:
        py = ne.encode(val)
        back = nd.decode(py, asn1Spec=spec)
        if not back.isValue:
            out.append(fail('native', T, v, 'native decoder returned a valueless (schema) object for %r' % (py,),
                            py=repr(py)[:100]))
        got = x690.norm(T, bridge.from_value(T, back))
        if got != want and not (T['k'] == 'REAL' or 'kind:REAL' in features(T)):
            out.append(fail('native', T, v, 'native round trip differs', got=repr(got)[:200], py=repr(py)[:200]))
        if T['k'] == 'REAL' and isinstance(v, tuple):
            # reals compared as python floats, up to rounding: the float the value denotes, computed exactly
            from fractions import Fraction
            m_, b_, e_ = v
            try:
                exact = float(Fraction(m_) * Fraction(b_) ** e_)
            except OverflowError:
                exact = None
            if exact is not None and abs(exact) > 1e-320:          # (above the last few subnormals: one ulp is the value there)
                got_f = float(back)
                if abs(got_f - exact) > abs(exact) * 1e-12 or (exact != 0.0) != (got_f != 0.0):
                    out.append(fail('native', T, v, 'native round trip of a REAL: %r became %r' % (exact, got_f), py=repr(py)[:100]))
    except Exception as ex:
        # a REAL beyond the float range has no native form (OverflowError is the honest answer); one inside it has
        excused = isinstance(ex, OverflowError) and 'kind:REAL' in features(T)
        if excused and T['k'] == 'REAL' and isinstance(v, tuple):
            from fractions import Fraction
            try:
                float(Fraction(v[0]) * Fraction(v[1]) ** v[2])
                excused = False
            except OverflowError:
                pass
        if not excused:
            out.append(fail('native', T, v, 'native round trip raised %s: %s' % (type(ex).__name__, str(ex)[:150])))
    # 2. python value tree + schema == value object, for the three codecs
    trees = []
    try:
        trees.append(('bridge', bridge.to_native_py(T, v)))
    except Exception:
        pass
    try:
        if 'kind:REAL' not in features(T) and 'kind:BITSTRING' not in features(T):
            trees.append(('native-encoder', ne.encode(val)))
    except Exception:
        pass
    # REAL leaves as python floats where the float denotes the value exactly (the way applications hand them over)
    if 'kind:REAL' in features(T) and trees:
        def floats(t, x):
            if t['k'] == 'REAL' and isinstance(x, tuple) and x[1] == 10:
                # (a float is stored in base 10: only a base-10 value object is its twin on the wire)
                from fractions import Fraction
                from pyasn1.type import univ as _u
                try:
                    f = float(Fraction(x[0]) * Fraction(x[1]) ** x[2])
                    # the float whose value object (as the library builds it from a float) is this very value
                    return f if tuple(_u.Real(f)) == tuple(_u.Real(x)) else x
                except Exception:
                    return x
            if t['k'] in ('SEQUENCE', 'SET') and isinstance(x, dict):
                return {n_: floats(ft, x[n_]) for n_, ft, m_ in t['fields'] if n_ in x}
            if t['k'] in ('SEQUENCEOF', 'SETOF') and isinstance(x, (list, tuple)):
                return [floats(t['elem'], y) for y in x]
            return x
        try:
            ft_ = floats(T, trees[0][1])
            if repr(ft_) != repr(trees[0][1]):
                trees.append(('floats', ft_))
        except Exception:
            pass
    for (tname, tree), (ename, enc) in itertools.product(trees, (('BER', be), ('CER', ce), ('DER', de))):
        n += 1
        try:
            # the equivalent value object, freshly built: `val` has been read by the native encoder above, and reads
            # are the subject of C04/C19 (KF-read-instantiates-optional-record), not of this check
            a = enc.encode(bridge.to_value(T, v))
        except Exception:
            continue
        try:
            b = enc.encode(tree, asn1Spec=spec)
        except Exception as ex:
            out.append(fail('native', T, v, '%s: encoding the python value with asn1Spec raised %s: %s' % (
                ename, type(ex).__name__, str(ex)[:150]), codec=ename, optional_absent=has_absent_optional(T, v)))
            continue
        if a != b:
            out.append(fail('native', T, v, '%s: python value + asn1Spec encodes differently from the value object' % ename,
                            got=b, want=a, codec=ename))
    # ... a scalar value object handed over together with its type (the guiding type re-initialises itself from it)
    if T['k'] in U.RANDOM_LEAVES:
        for ename, enc in (('BER', be), ('DER', de)):
            n += 1
            try:
                a = enc.encode(bridge.to_value(T, v))
            except Exception:
                continue
            try:
                b = enc.encode(bridge.to_value(T, v), asn1Spec=spec)
            except Exception as ex:
                out.append(fail('native', T, v, '%s: encoding the value object with asn1Spec raised %s: %s' % (
                    ename, type(ex).__name__, str(ex)[:150]), codec=ename))
                continue
            if a != b:
                out.append(fail('native', T, v, '%s: value object + asn1Spec encodes differently from the value object alone' % ename,
                                got=b, want=a, codec=ename))
    return out, n


def has_absent_optional(T, v):
    k = T['k']
    if k in ('SEQUENCE', 'SET'):
        for n, ft, m in T['fields']:
            if n not in v and m != 'req':
                return True
            if n in v and has_absent_optional(ft, v[n]):
                return True
        return False
    if k in ('SEQUENCEOF', 'SETOF'):
        return any(has_absent_optional(T['elem'], x) for x in v)
    if k == 'CHOICE':
        ft = [f for fn, f, m in T['fields'] if fn == v[0]][0]
        return has_absent_optional(ft, v[1])
    return False


CHECKS = {'histories': chk_histories, 'purity': chk_purity, 'accepts-wellformed': chk_accepts_wellformed,
          'native': chk_native}


def _run_chunk(args):
    names, pairs, seed = args
    M = _imports()
    rng = random.Random(seed)
    fails, evals, nontriv = [], 0, set()
    for T, v in pairs:
        for nm in names:
            try:
                f, n = guard.run_case(lambda: CHECKS[nm](T, v, M, rng))
            except guard.CaseTimeout:
                f, n = [fail(nm, T, v, 'does not terminate within %d s on this case' % guard.CASE_SECONDS)], 1
            except Exception as ex:
                f, n = [fail(nm, T, v, 'harness error %s: %s' % (type(ex).__name__, ex),
                             trace=traceback.format_exc()[-800:], harness_error=True)], 1
            fails.extend(f)
            evals += n
        if value_size(v) > 0 or T.get('tags') or T['k'] in x690.CONSTRUCTED:
            nontriv.add(repr((T, v)))
    return fails, evals, len(nontriv)


def run(names, tier, seed, jobs=16):
    pairs = U.universe(seed=seed, tier=tier, include_long=('native' in names))
    if 'purity' in names:
        # an untagged ANY larger than what a buffered file hands out at a time (the log line of its decoder used to look
        # ahead for all of it)
        pairs.append((U.T('ANY'), b'\x04\x82\x4e\x20' + b'x' * 20000))
    chunks = [pairs[i::jobs * 2] for i in range(jobs * 2)]
    chunks = [c for c in chunks if c]
    ctx = mp.get_context('fork')
    with ctx.Pool(jobs) as pool:
        res = pool.map(_run_chunk, [(names, c, seed + i) for i, c in enumerate(chunks)], chunksize=1)
    return {'checks': names, 'pairs': len(pairs), 'evaluations': sum(r[1] for r in res),
            'distinct_nontrivial': sum(r[2] for r in res), 'failures': [f for r in res for f in r[0]]}


def main():
    ap = argparse.ArgumentParser()
    ap.add_argument('checks')
    ap.add_argument('--tier', default='quick')
    ap.add_argument('--seed', type=int, default=0)
    ap.add_argument('--out')
    ap.add_argument('--jobs', type=int, default=16)
    ap.add_argument('--replay')
    a = ap.parse_args()
    if a.replay:
        f = json.loads(a.replay)
        T, v = unjson(f['T']), unjson_value(f['T'], f['v'])
        fs, n = CHECKS[f['check']](T, v, _imports(), random.Random(0))
        for x in fs[:3]:
            print('REPRODUCED %s: %s' % (x['check'], x['detail'][:300]))
        if not fs:
            print('not reproduced on this tree')
        sys.exit(1 if fs else 0)
    t0 = time.time()
    res = run(a.checks.split(','), a.tier, a.seed, jobs=a.jobs)
    res['wall_s'] = time.time() - t0
    if a.out:
        json.dump(res, open(a.out, 'w'))
    else:
        print(json.dumps({k: v for k, v in res.items() if k != 'failures'}))
        seen = {}
        for f in res['failures']:
            key = (f['check'], f['detail'][:80], tuple(x for x in f['features'] if not x.startswith('kind:')))
            seen.setdefault(key, []).append(f)
        for key, fs in sorted(seen.items(), key=lambda kv: -len(kv[1]))[:40]:
            print(len(fs), key)
            print('     e.g.', json.dumps({k: fs[0][k] for k in fs[0] if k not in ('features', 'check', 'detail')})[:300])


if __name__ == '__main__':
    main()
