"""Bounded stand-in for C08 (malformed input fails cleanly) -- labelled `bounded`.

contract of every decode entry point on arbitrary bytes b:  terminates within a step bound proportional to |b| and
either returns (Asn1Item value object, remainder) or raises an error derived from PyAsn1Error.

    python -m standins.robust_checks malformed --tier quick|thorough --seed N --out file.json
"""
import argparse
import io
import itertools
import json
import multiprocessing as mp
import random
import sys
import time

from spec import universe as U
from standins import guard
from standins.codec_checks import fail, _imports, unjson

ALPHABET = [0x00, 0x01, 0x02, 0x03, 0x04, 0x05, 0x06, 0x09, 0x0a, 0x0c, 0x13, 0x17, 0x18, 0x1f, 0x23, 0x24, 0x30, 0x31,
            0x7f, 0x80, 0x81, 0x82, 0xa0, 0xff]


class CountingBytesIO(io.BytesIO):
    reads = 0

    def read(self, n=-1):
        self.reads += 1
        return super().read(n)


def specs(bridge):
    from pyasn1.type import univ, char, useful, namedtype, tag
    T = U.T
    ts = [T('INTEGER'), T('BOOLEAN'), T('BITSTRING'), T('OCTETSTRING'), T('NULL'), T('OID'), T('REAL'), T('UTF8String'),
          T('SEQUENCE', fields=[('a', T('INTEGER'), 'req'), ('b', T('OCTETSTRING'), 'opt'), ('c', T('BOOLEAN'), ('default', False))]),
          T('SET', fields=[('a', T('INTEGER'), 'req'), ('b', T('BITSTRING', [('I', 128, 0)]), 'opt')]),
          T('SEQUENCEOF', elem=T('INTEGER')), T('SETOF', elem=T('BITSTRING')),
          T('CHOICE', fields=[('i', T('INTEGER'), 'req'), ('s', T('OCTETSTRING'), 'req'), ('q', T('SEQUENCEOF', elem=T('NULL')), 'req')]),
          T('CHOICE', [('E', 128, 0)], fields=[('i', T('INTEGER'), 'req'), ('r', T('REAL'), 'req')]),
          T('INTEGER', [('E', 128, 1)]), T('ANY'), T('GeneralizedTime'), T('BMPString'),
          T('SEQUENCE', fields=[('a', T('INTEGER'), 'req')]),
          T('SEQUENCE', fields=[('a', T('INTEGER'), 'req'), ('b', T('INTEGER'), 'opt')]),
          T('SET', fields=[('a', T('INTEGER'), 'req')]), T('SEQUENCE', fields=[('id', T('OID'), 'req')])]
    out = [None] + [bridge.to_type(t) for t in ts]
    # constrained guides: the error message of a violated constraint shows the offending value
    from pyasn1.type import constraint
    out.append(univ.Integer().subtype(subtypeSpec=constraint.ValueRangeConstraint(0, 10)))
    out.append(univ.SequenceOf(componentType=univ.Integer()).subtype(subtypeSpec=constraint.ValueSizeConstraint(0, 1)))
    # ... or is evaluated on a member that is not there / on the internal form of the value
    out.append(univ.Sequence(componentType=namedtype.NamedTypes(
        namedtype.OptionalNamedType('a', univ.Integer()), namedtype.NamedType('b', univ.Boolean()))).subtype(
        subtypeSpec=constraint.WithComponentsConstraint(('a', constraint.ValueRangeConstraint(1, 5)))))
    out.append(univ.Choice(componentType=namedtype.NamedTypes(
        namedtype.NamedType('a', univ.Integer()), namedtype.NamedType('b', univ.Boolean()))).subtype(
        subtypeSpec=constraint.WithComponentsConstraint(('a', constraint.ComponentAbsentConstraint()))))
    out.append(univ.Real().subtype(subtypeSpec=constraint.ValueRangeConstraint(0, 10)))
    inner = univ.Sequence(componentType=namedtype.NamedTypes(namedtype.OptionalNamedType('a', univ.Integer()),
                                                             namedtype.OptionalNamedType('b', univ.Boolean())))
    out.append(univ.Sequence(componentType=namedtype.NamedTypes(namedtype.NamedType('i', inner))).subtype(
        subtypeSpec=constraint.WithComponentsConstraint(('i', constraint.WithComponentsConstraint(
            ('a', constraint.ConstraintsUnion(constraint.ValueRangeConstraint(1, 5), constraint.ComponentAbsentConstraint())),
            ('b', constraint.ConstraintsExclusion(constraint.ComponentAbsentConstraint())))))))
    # ... constraint sets over the size / the alphabet of a string member that the input leaves out: the sets are shown
    # "no value", which has neither
    strrec = univ.Sequence(componentType=namedtype.NamedTypes(namedtype.OptionalNamedType('a', univ.OctetString()),
                                                              namedtype.NamedType('b', univ.Integer())))
    for inner_ in (constraint.ConstraintsExclusion(constraint.ValueSizeConstraint(1, 2)),
                   constraint.ConstraintsUnion(constraint.ValueSizeConstraint(1, 2), constraint.ComponentAbsentConstraint()),
                   constraint.ConstraintsExclusion(constraint.PermittedAlphabetConstraint('a', 'b')),
                   constraint.ConstraintsUnion(constraint.PermittedAlphabetConstraint('a'), constraint.ComponentAbsentConstraint()),
                   constraint.ConstraintsIntersection(constraint.ValueSizeConstraint(1, 2),
                                                      constraint.PermittedAlphabetConstraint('a', 'b'))):
        out.append(strrec.subtype(subtypeSpec=constraint.WithComponentsConstraint(('a', inner_))))
    return out


def one(decname, dec, b, spec, error, base):
    """-> None or description of the contract violation"""
    s = CountingBytesIO(b)
    try:
        r = dec.decode(s, asn1Spec=spec)
    except error.PyAsn1Error:
        r = None
    except RecursionError:
        return 'RecursionError'
    except Exception as e:
        return 'non-library exception %s: %s' % (type(e).__name__, str(e)[:100])
    if s.reads > 60 * len(b) + 60:
        return 'step bound exceeded: %d stream reads for %d octets' % (s.reads, len(b))
    if r is not None:
        val, rest = r
        if val is None or not isinstance(val, base.Asn1Item):
            return 'returned %r instead of an ASN.1 value object' % (val,)
        try:
            if not val.isValue:
                return 'returned a valueless placeholder %s' % val.__class__.__name__
        except Exception as e:
            return 'result object is unusable: isValue raised %s' % type(e).__name__
        try:
            val.prettyPrint()
            repr(val)
        except error.PyAsn1Error:
            pass
        except Exception as e:
            return 'result object is unusable: printing raised %s: %s' % (type(e).__name__, str(e)[:80])
    return None


HUGE_LENGTHS = [bytes.fromhex(h) for h in ('04883fffffffffffffff0102', '30847fffffff0201', '2488ffffffffffffffff04016100',
                                             '0388100000000000000000ff', '3084ffffffff', '0c857fffffffff41')]


def file_one(dec, b, error):
    """the same octets from a real file object (buffered and unbuffered): an absurd length must not surface as
    MemoryError / OverflowError from the file layer"""
    import tempfile
    for buffering in (-1, 0):
        with tempfile.TemporaryFile(buffering=buffering) as f:
            f.write(b)
            f.seek(0)
            try:
                dec.decode(f)
            except error.PyAsn1Error:
                pass
            except Exception as e:
                return 'real file (buffering=%d): non-library exception %s: %s' % (buffering, type(e).__name__, str(e)[:80])
    return None


def streaming_one(dec, b, spec, error, base):
    s = CountingBytesIO(b)
    try:
        n = 0
        for obj in dec.StreamingDecoder(s, asn1Spec=spec):
            n += 1
            if n > len(b) + 2:
                return 'streaming decoder yields more objects than octets'
            if isinstance(obj, error.SubstrateUnderrunError) or obj is None:
                break
            if not isinstance(obj, base.Asn1Item):
                return 'streaming decoder yielded %r' % (obj,)
    except error.PyAsn1Error:
        pass
    except RecursionError:
        return 'RecursionError'
    except Exception as e:
        return 'non-library exception %s: %s' % (type(e).__name__, str(e)[:100])
    if s.reads > 60 * len(b) + 60:
        return 'step bound exceeded: %d stream reads for %d octets' % (s.reads, len(b))
    return None


def _chunk(args):
    inputs, seed = args
    be, bd, ce, cd, de, dd, error, bridge = _imports()
    from pyasn1.type import base
    sp = specs(bridge)
    fails, n = [], 0
    for b in inputs:
        for dname, dec in (('BER', bd), ('CER', cd), ('DER', dd)):
            for si, spec in enumerate(sp):
                n += 1
                try:
                    why = guard.run_case(lambda: one(dname, dec, b, spec, error, base), seconds=20)
                except guard.CaseTimeout:
                    why = 'does not terminate within 100 s (decode, isValue, prettyPrint, repr)'
                if why:
                    fails.append({'check': 'malformed', 'T': {'k': 'spec#%d' % si}, 'v': None, 'features': [],
                                  'detail': '%s decoder, %s: %s' % (dname, 'no spec' if spec is None else
                                                                    spec.__class__.__name__, why),
                                  'enc': {'hex': b.hex()}, 'decoder': dname, 'spec_index': si, 'why': why[:60]})
            if b in HUGE_LENGTHS:
                n += 1
                why = file_one(dec, b, error)
                if why:
                    fails.append({'check': 'malformed', 'T': {'k': 'file'}, 'v': None, 'features': [],
                                  'detail': '%s decoder: %s' % (dname, why), 'enc': {'hex': b.hex()}, 'decoder': dname,
                                  'spec_index': -2, 'why': why[:60]})
            if len(b) <= 4:
                n += 1
                why = streaming_one(dec, b, None, error, base)
                if why:
                    fails.append({'check': 'malformed', 'T': {'k': 'streaming'}, 'v': None, 'features': [],
                                  'detail': '%s streaming decoder: %s' % (dname, why), 'enc': {'hex': b.hex()},
                                  'decoder': dname, 'spec_index': -1, 'why': why[:60]})
    return fails, n


def inputs(tier, seed):
    rng = random.Random(seed)
    out = [b'']
    maxlen = 2 if tier == 'quick' else 3
    for L in range(1, maxlen + 1):
        out += [bytes(t) for t in itertools.product(ALPHABET, repeat=L)]
    # grammar-ish: tag, length, random body
    for _ in range(1500 if tier == 'quick' else 20000):
        t = rng.choice(ALPHABET)
        body = bytes(rng.choice(ALPHABET) for _ in range(rng.randrange(0, 6)))
        ln = rng.choice([len(body), len(body), len(body) + 1, max(0, len(body) - 1), 0x80, 0x81])
        out.append(bytes([t, ln & 0xff]) + body + (b'\x00\x00' if ln == 0x80 else b''))
    # structured damage: excess / repeated members in definite and indefinite containers
    for tag_ in (0x30, 0x31):
        for inner in (b'\x02\x01\x01', b'\x02\x01\x01\x02\x01\x02', b'\x02\x01\x01\x02\x01\x02\x02\x01\x03',
                      b'\x02\x01\x01\x04\x01a\x02\x01\x02', b'\x04\x01a'):
            out.append(bytes([tag_, len(inner)]) + inner)
            out.append(bytes([tag_, 0x80]) + inner + b'\x00\x00')
    # REAL in character form with odd text, all three NR forms
    for nr in (1, 2, 3, 0, 4):
        for txt in (b'nan', b'inf', b'-inf', b'1', b'1.', b'.', b'1E', b'E1', b'--1', b'1e9999', b' 1', b'0x10', b'1_0',
                    b'1.5', b'-0', b'+1.0E+2', b'', b'\xff'):
            out.append(bytes([9, len(txt) + 1, nr]) + txt)
    out.append(bytes([9, 0x82, 1, 0x92, 1]) + b'1' + b'0' * 400)      # NR1 10**400
    out.append(bytes([9, 0x82, 1, 0x93, 2]) + b'1' + b'0' * 399 + b'.0')
    # binary REAL corner cases
    for body in (b'\x80', b'\x80\x00', b'\x83\x00', b'\x83\x01\x00', b'\x83\xff' + b'\x00' * 3, b'\xb0\x00\x01',
                 b'\x42', b'\x43', b'\x7f', b'\x80\x7f\x01', b'\x81\x7f\xff\x01'):
        out.append(bytes([9, len(body)]) + body)
    for body in itertools.product((0x00, 0x01, 0x03, 0x05, 0x7f, 0x80, 0x83, 0xff), repeat=3):
        out.append(bytes([9, 3]) + bytes(body))
        if body[0] in (0x83, 0x80):
            out.append(bytes([9, 4]) + bytes(body) + b'\x01')
    # binary REALs with exponents of 4..6 octets, alone and as the member that makes a record malformed (the error message
    # prints the value): decoding and printing must not compute the number
    for eo in (b'\x04\x01\x00\x00\x00', b'\x05\x01\x00\x00\x00\x00', b'\x06\x01\x00\x00\x00\x00\x00',
               b'\x05\xff\x00\x00\x00\x00'):
        body = b'\x83' + eo + b'\x01'
        real = bytes([9, len(body)]) + body
        out.append(real)
        out.append(b'\x30\x80' + real + b'\x02\x01\x05\x00\x00')
        out.append(bytes([0x30, len(real) + 3]) + real + b'\x02\x01\x05')
        out.append(bytes([0x31, len(real)]) + real)
    out += HUGE_LENGTHS
    # an INTEGER of more decimal digits than the interpreter converts to text (error messages and repr show values)
    big = bytes.fromhex('02820800') + b'\x7f' + b'\xff' * 2047
    out += [big, b'\x30\x80' + big + b'\x05\x00\x00\x00', b'\x30\x82\x10\x08' + big + big,
            bytes.fromhex('31820804') + big]
    # records with OPTIONAL members left out (guides with a value constraint on such a member must cope), a CHOICE
    out += [b'\x30\x03\x01\x01\xff', b'\x30\x06\x02\x01\x03\x01\x01\xff', b'\x30\x06\x02\x01\x09\x01\x01\xff',
            b'\x30\x80\x01\x01\x00\x00\x00', b'\x31\x03\x01\x01\xff', b'\x02\x01\x05', b'\x01\x01\xff',
            b'\x30\x05\x30\x03\x01\x01\xff', b'\x30\x08\x30\x06\x02\x01\x09\x01\x01\xff', b'\x30\x02\x30\x00',
            b'\x30\x05\x30\x03\x02\x01\x03',
            # { b INTEGER } / { a OCTET STRING, b INTEGER } for the guides with set constraints on the string member a
            b'\x30\x03\x02\x01\x01', b'\x30\x06\x04\x01\x61\x02\x01\x01', b'\x30\x08\x04\x03\x61\x62\x63\x02\x01\x01',
            b'\x30\x80\x02\x01\x01\x00\x00']
    # constructed strings whose segments are themselves constructed (X.690 8.7.3.2 allows it): valid input, rarely produced
    out += [bytes.fromhex(h) for h in (
        '24802480040161000004016200 00', '240a24800401610000040162', '2c802480 0402c3a9 0000 0000', '2480 2405 0401 61 0401 62 0000',
        '2380 2380 0302 0061 0000 0000', '2309 2380 0302 0061 0000 03 00'.replace(' ', '') + '', '3080 2480 2480 0401 61 0000 0000 0000',
        'a080 2480 2480 0401 61 0000 0000 0000')]
    # numbers beyond the interpreter's decimal conversion limit in places that error messages print: a long-form tag number,
    # an OID arc (alone, before a truncated sub-identifier, before an excess member of an indefinite-length record)
    hugearc = bytes.fromhex('068208362a') + b'\xff' * 2100 + b'\x01'
    out += [b'\x1f' + b'\xff' * 2100 + b'\x01\x00', b'\xbf' + b'\xff' * 2100 + b'\x01\x03\x02\x01\x05',
            bytes.fromhex('068208372a') + b'\xff' * 2100 + b'\x01\x81', hugearc, b'\x30\x80' + hugearc + b'\x05\x00\x00\x00',
            bytes.fromhex('3082083e') + hugearc + b'\x02\x01\x05']
    # explicit tags with nothing / too much inside
    out += [b'\xa0\x00', b'\xa0\x80\x00\x00', b'\xa1\x06\x02\x01\x01\x02\x01\x02', b'\xa1\x80\x02\x01\x01\x02\x01\x02\x00\x00']
    # single-edit neighbours of valid encodings
    M = _imports()
    be, bd, ce, cd, de, dd, error, bridge = M
    pairs = U.universe(seed=seed, tier='quick')
    rng.shuffle(pairs)
    from standins.object_checks import mutations
    for T, v in pairs[:120 if tier == 'quick' else 800]:
        try:
            e = be.encode(bridge.to_value(T, v), defMode=rng.random() < 0.5)
        except Exception:
            continue
        if len(e) <= 40:
            out += mutations(e, rng, 6)
    return list(dict.fromkeys(out))


def main():
    ap = argparse.ArgumentParser()
    ap.add_argument('checks')
    ap.add_argument('--tier', default='quick')
    ap.add_argument('--seed', type=int, default=0)
    ap.add_argument('--out')
    ap.add_argument('--replay')
    a = ap.parse_args()
    t0 = time.time()
    if a.replay:
        f = json.loads(a.replay)
        fs, n = _chunk(([bytes.fromhex(f['enc']['hex'])], 0))
        same = [x for x in fs if x['decoder'] == f['decoder'] and x['spec_index'] == f['spec_index']] or fs
        for x in same[:3]:
            print('REPRODUCED %s: %s on input %s' % (x['check'], x['detail'][:300], x['enc']['hex']))
        if not same:
            print('not reproduced on this tree')
        sys.exit(1 if same else 0)
    ins = inputs(a.tier, a.seed)
    jobs = 16
    chunks = [ins[i::jobs * 2] for i in range(jobs * 2)]
    ctx = mp.get_context('fork')
    with ctx.Pool(jobs) as pool:
        res = pool.map(_chunk, [(c, a.seed) for c in chunks if c], chunksize=1)
    fails = [f for r in res for f in r[0]]
    out = {'checks': ['malformed'], 'evaluations': sum(r[1] for r in res), 'distinct_nontrivial': len(ins),
           'failures': fails, 'wall_s': time.time() - t0}
    if a.out:
        json.dump(out, open(a.out, 'w'))
    else:
        print({k: v for k, v in out.items() if k != 'failures'})
        import collections
        cn = collections.Counter((f['why'],) for f in fails)
        ex = {}
        for f in fails:
            ex.setdefault(f['why'], f)
        for k, c in cn.most_common(30):
            print(c, k, ex[k[0]]['enc']['hex'], ex[k[0]]['detail'][:120])


if __name__ == '__main__':
    main()
