#!/usr/bin/env python3
"""Regenerate MANIFEST.json from proofs/registry.py (claimed properties) + NOT_YET list."""
import json, os, sys
sys.path.insert(0, os.path.dirname(os.path.abspath(__file__)))
from proofs import registry

ALL = ['C%02d' % i for i in range(1, 21)]
checks = []
for pid in ALL:
    P = registry.PROPS.get(pid)
    if not P:
        continue
    checks.append({
        'property_id': pid,
        'quick_cmd': './checks/check %s --tier quick' % pid,
        'thorough_cmd': './checks/check %s --tier thorough' % pid,
        'evidence_file': 'evidence/%s.json' % pid,
        'replay_cmd_template': './checks/check %s --replay {path}' % pid,
        'engine': 'pyvc',
        'level_claimed': {'category': P.get('level', 'other'), 'text': P['level_text'], 'design_ref': 'DESIGN.md section 6, ' + pid},
        'level_note': P['level_note'],
        'technique': P.get('technique', 'contract-based deductive verification: sidecar contracts on the real functions, '
                                        'VCs generated from the AST and discharged by z3; finite tables by complete evaluation; '
                                        'labelled bounded stand-ins for entry points'),
    })
na = [{'property_id': p, 'reason': registry.NOT_CLAIMED[p]} for p in ALL if p not in registry.PROPS]
m = {
    'version': 1,
    'setup_cmd': 'python3-vt -m pyvc.selftest',
    'hooks': {'guard': 'PYASN1_VERIF', 'enable': 'no hooks: contracts are sidecar files under /verif/contracts, the real source '
              'is re-extracted from /repo on every run (guard name reserved, unused)',
              'baseline_off_cmd': 'cd /repo && /venv/bin/python -m pytest -ra -q -p no:cacheprovider --timeout=900 '
                                  '--continue-on-collection-errors', 'source_commits': [], 'add_only': True},
    'engines': [{'name': 'pyvc', 'path': 'pyvc/', 'serves_properties': sorted(registry.PROPS),
                 'kind_free_text': 'verification-condition generator for a subset of Python (ast -> path-wise VCs -> z3), '
                                   'modular contracts, loop invariants, generator protocol obligations, finite table obligations'}],
    'checks': checks,
    'not_applicable': na,
    'notes': 'Known findings (genuine defects recorded, not repaired) are in known_findings.json; repaired defects are '
             'the "fix:" commits in /repo listed there as fixed entries.',
}
json.dump(m, open(os.path.join(os.path.dirname(os.path.abspath(__file__)), 'MANIFEST.json'), 'w'), indent=1)
print('claimed', [c['property_id'] for c in checks], 'not claimed', [n['property_id'] for n in na])
